"""
C11 - fixed parameters are honoured at construction, in evaluation and through fitting.

Generated tables (harness/sentinel.py -> lean/VirVerif/Generated/{ParamMap,FitKeywords}.lean), re-proved
by `lake build` on every run: `ctor_fixed_wins`, `cond_fixed_const`, `fit_keywords_accepted_and_targeted`
(against the Lean model of scipy's fit-keyword grammar), `ew_lsq_supported_sets_observed` (a recorded table of ONE
concrete least-squares run per fixed set).
Numeric side: every table row is re-executed on the real code with concrete numbers; real fits for every
non-empty proper subset of fixed parameters x data from the family and from other families; the
least-squares branch of the exponentiated Weibull; ConditionalDistribution (fixed parameter constant in
`given`, also after `fit`); the grammar model is compared with what scipy.stats really accepts.
"""
import warnings

import math
import numpy as np
import scipy.stats as sts

import core
import sentinel

# the tables under lean/VirVerif/Generated are regenerated from the tree under test: a table theorem that no
# longer holds makes `lake build` fail, which for this property is a broken proof obligation, not a machinery error
HANDLES_BUILD_FAILURE = True
import c05

TABLES = sentinel.generate()  # import time: before core.Check.lean() builds

RTOL_FIXED = 1e-12


def _sig(entry, predicate, **kw):
    d = {"entry": entry, "predicate": predicate}
    d.update(kw)
    return d


# ---------------------------------------------------------------------------
# constructor rows


CTOR_CALL = {0: "Dist(**values, **fixed)", 1: "Dist(**fixed, **values)", 2: "Dist(*values, **fixed)",
             3: "Dist(**values, **fixed, f_<free>=None)"}


def as_given(values, kind):
    """the fixed values as the user hands them over: `kind` None / "python" = the JSON numbers as they are (Python float
    or int), "numpy" = numpy scalars (np.float64 / np.int64, e.g. read from an array or a fitted model)"""
    if kind != "numpy":
        return list(values)
    return [np.int64(v) if isinstance(v, int) else np.float64(v) for v in values]


def vary_fixed_values(rng, name, params, farg):
    """value classes of a fixed value: whole numbers as Python ints (`f_delta=5` as in the predefined models), exact zeros
    of location-type parameters, numpy scalars; returns (values, kind)"""
    farg = list(farg)
    r = int(rng.integers(0, 4))
    if r == 1:
        farg = [int(max(1, round(v))) if v > 0 else int(round(v)) for v in farg]
        if name == "BetaScipyDistribution":
            farg = [float(v) for v in farg]
    elif r == 2:
        farg = [0.0 if pn in ZERO_ADMISSIBLE else v for pn, v in zip(params, farg)]
    elif r == 3:
        farg = [0 if pn in ZERO_ADMISSIBLE else (int(max(1, round(v))) if j % 2 else v) for j, (pn, v) in enumerate(zip(params, farg))]
    if name == "VonMisesDistribution" and rng.integers(0, 3) == 0:
        # an angle outside the principal interval [-pi, pi) (scipy's fit wraps its location estimate into it), and pi itself
        farg[params.index("mu")] = float(rng.choice([4.0, -4.5, math.pi, 7.5]))
    return farg, ("numpy" if rng.integers(0, 3) == 0 else "python")


def check_ctor(case):
    name = case["family"]
    cls, params = sentinel.family(name)
    given, F, order = case["given"], case["fixed"], case["order"]
    arg, farg = case["arg"], as_given(case["farg"], case.get("farg_kind"))
    vals = {params[p]: arg[p] for p in given}
    fx = {"f_" + params[p]: farg[p] for p in F}
    bad = []
    try:
        if order == 0:
            inst = cls(**vals, **fx)
        elif order == 1:
            inst = cls(**fx, **vals)
        elif order == 3:
            inst = cls(**vals, **fx, **{"f_" + params[q]: None for q in range(len(params)) if q not in F})
        else:
            inst = cls(*[arg[p] for p in given], **fx)
    except Exception as e:  # noqa: BLE001
        return [(_sig(name + ".__init__", "raises", call=CTOR_CALL[order]), type(e).__name__ + ": " + str(e)[:100])]
    ps = inst.parameters

    def bits(v):
        """bit pattern of a stored value; anything that is not a real number (None, ...) equals no given value"""
        try:
            return core.f2b(v)
        except (TypeError, ValueError):
            return ("not-a-number", repr(v))

    for p, pn in enumerate(params):
        fa = getattr(inst, "f_" + pn)
        if p in F:
            if not (bits(ps[pn]) == core.f2b(farg[p])):  # f2b converts through float(): 5, 5.0, np.int64(5) are one value
                bad.append((_sig(name + ".__init__", "fixed_wins", call=CTOR_CALL[order]),
                            f"{CTOR_CALL[order]} with f_{pn}={farg[p]!r}, {pn}={arg[p] if p in given else 'default'!r}: "
                            f"parameters[{pn!r}] = {ps[pn]!r}"))
            if fa is None or bits(fa) != core.f2b(farg[p]):
                bad.append((_sig(name + ".__init__", "fixed_remembered", call=CTOR_CALL[order]), f"f_{pn} = {fa!r}"))
        else:
            if fa is not None:
                bad.append((_sig(name + ".__init__", "free_not_marked_fixed", call=CTOR_CALL[order]), f"f_{pn} = {fa!r}"))
            if p in given and bits(ps[pn]) != core.f2b(arg[p]):
                bad.append((_sig(name + ".__init__", "value_stored", call=CTOR_CALL[order]),
                            f"{pn}={arg[p]!r} given, parameters[{pn!r}] = {ps[pn]!r}"))
    return bad


def run_ctor_rows(ck, rng, n_val):
    for row in TABLES["ctor"]:
        name = row["fam"]
        if name in sentinel.FAMILY_ERRORS:
            continue
        for _ in range(n_val):
            _, params = sentinel.family(name)
            farg, kind = vary_fixed_values(rng, name, params, sentinel.random_values(rng, name))
            case = {"kind": "ctor", "family": name, "given": row["given"], "fixed": row["fixed"], "order": row["order"],
                    "arg": sentinel.random_values(rng, name),
                    "farg": farg, "farg_kind": kind}
            bad = check_ctor(case)
            ck.case(case, nontrivial=bool(row["fixed"]), sample=(len(ck.samples) < 1))
            ck.count("ctor:" + name)
            if row["fixed"]:
                ck.count("fixed_value_class:" + kind + ":" + ("int" if any(isinstance(farg[p], int) for p in row["fixed"]) else "float")
                         + (":zero" if any(farg[p] == 0 for p in row["fixed"]) else ""))
            for sig, detail in bad:
                ck.fail(sig, case, detail)


def observe_unknown_keywords(ck):
    """Constructor keywords that name no parameter of the family (`nosuch=`, `f_nosuch=`, both together with a real
    fixed parameter).  C11 speaks about the family's own parameters only, so there is NO verdict on the outcome class;
    the path is executed and the outcome counted (evidence: input_distribution `observed_no_verdict:...`).  What C11
    does state is checked: a refused construction must not have been required, an accepted one must still honour the
    real fixed parameter."""
    for name, cls, params in sentinel.live_families():
        farg = sentinel.random_theta(np.random.default_rng(7), name, wide=False)
        p0 = params[0]
        for kws in ({"nosuch": 1.5}, {"f_nosuch": 1.5}, {"f_" + p0: farg[p0], "f_nosuch": 1.5}):
            try:
                inst = cls(**kws)
                out = "accepted"
            except Exception as e:  # noqa: BLE001
                inst, out = None, type(e).__name__
            ck.count("observed_no_verdict:ctor_unknown_keyword:" + out)
            if inst is not None and "f_" + p0 in kws:
                case = {"kind": "ctor_unknown", "family": name, "kwargs": {k: float(v) for k, v in kws.items()}}
                ck.case(case, nontrivial=True, sample=False)
                if core.f2b(inst.parameters[p0]) != core.f2b(farg[p0]):
                    ck.fail(_sig(name + ".__init__", "fixed_wins", call="Dist(f_<p>=v, f_<unknown>=w)"), case,
                            f"accepted, but parameters[{p0!r}] = {inst.parameters[p0]!r}, fixed {farg[p0]!r}")


# ---------------------------------------------------------------------------
# ConditionalDistribution


class _Dep:
    """minimal dependence function: callable, fittable"""

    def __init__(self, a=1.0, b=0.5):
        self.a, self.b = a, b

    def __call__(self, given):
        return self.a

    def fit(self, x, y):
        self.a = float(np.mean(y))
        self.b = 0.0


def check_cond(case):
    import virocon.distributions as vd

    name = case["family"]
    cls, params = sentinel.family(name)
    F, farg = case["fixed"], as_given(case["farg"], case.get("farg_kind"))
    bad = []
    try:
        inst = cls(**{"f_" + params[p]: farg[p] for p in F})
        deps = {params[p]: _Dep(case["dep"][p], 0.0) for p in range(len(params)) if p not in F}
        cd = vd.ConditionalDistribution(inst, deps)
        for given in (0.5, 3.0, np.array([0.1, 1.0, 7.5]), [2.0, 4.0]):
            vals = cd._get_param_values(given)
            for p in F:
                v = vals[params[p]]
                if np.shape(v) != () or core.f2b(v) != core.f2b(farg[p]):
                    bad.append((_sig("ConditionalDistribution._get_param_values", "fixed_constant_in_given", family=name),
                                f"f_{params[p]}={farg[p]!r} but value at given={given!r} is {v!r}"))
    except Exception as e:  # noqa: BLE001
        bad.append((_sig("ConditionalDistribution", "raises", family=name), type(e).__name__ + ": " + str(e)[:120]))
    return bad


def check_draw(case):
    """`draw_sample` is an evaluation too: an instance with fixed parameters, and a ConditionalDistribution over it (scalar
    and array-valued conditioning value), draw - for the same seed - exactly what the instance constructed with the
    effective values draws"""
    import virocon.distributions as vd

    name = case["family"]
    cls, params = sentinel.family(name)
    F, farg = case["fixed"], as_given(case["farg"], case.get("farg_kind"))
    arg, dep, seed, n = case["arg"], case["dep"], case["seed"], case["n"]
    bad = []

    def draw(obj, *a, **kw):
        with np.errstate(all="ignore"), warnings.catch_warnings():
            warnings.simplefilter("ignore")
            try:
                return np.asarray(obj.draw_sample(*a, **kw), dtype=float), None
            except Exception as e:  # noqa: BLE001
                return None, type(e).__name__ + ": " + str(e)[:120]

    eff = {pn: (float(farg[p]) if p in F else arg[p]) for p, pn in enumerate(params)}
    want, e0 = draw(cls(**eff), n, random_state=seed)
    got, e1 = draw(cls(**{pn: arg[p] for p, pn in enumerate(params)}, **{"f_" + params[p]: farg[p] for p in F}), n,
                   random_state=seed)
    if e0 is None and (e1 is not None or not sentinel.same_values(got, want)):
        bad.append((_sig(name + ".draw_sample", "fixed_used_in_evaluation"),
                    f"{name}(values, f_...={[farg[p] for p in F]}).draw_sample({n}, random_state={seed}) gives "
                    f"{e1 or got.tolist()}, {name}(**{eff}).draw_sample gives {want.tolist()}"))
    eff2 = {pn: (float(farg[p]) if p in F else dep[p]) for p, pn in enumerate(params)}
    try:
        inst = cls(**{"f_" + params[p]: farg[p] for p in F})
        cd = vd.ConditionalDistribution(inst, {params[p]: _Dep(dep[p], 0.0) for p in range(len(params)) if p not in F})
    except Exception as e:  # noqa: BLE001
        return bad + [(_sig("ConditionalDistribution", "raises", family=name), type(e).__name__ + ": " + str(e)[:120])]
    for given in (2.5, np.array([0.5, 1.5, 4.0])):
        if np.ndim(given) == 0:
            want, e0 = draw(cls(**eff2), n, random_state=seed)
        else:
            want, e0 = draw(cls(), n, **{pn: np.full(np.shape(given), v) for pn, v in eff2.items()}, random_state=seed)
        got, e1 = draw(cd, n, given, random_state=seed)
        if e0 is None and (e1 is not None or not sentinel.same_values(got, want)):
            bad.append((_sig("ConditionalDistribution.draw_sample", "conditional_uses_fixed", family=name),
                        f"fixed {[params[p] for p in F]}={[farg[p] for p in F]}, given={np.asarray(given).tolist()}: draws "
                        f"{e1 or got.tolist()}, the law with the effective values {eff2} draws {want.tolist()} (seed {seed})"))
    return bad


def check_cond_fit(case):
    """ConditionalDistribution.fit: every per-interval distribution keeps the fixed value"""
    import virocon.distributions as vd

    name = case["family"]
    cls, params = sentinel.family(name)
    F, farg = case["fixed"], as_given(case["farg"], case.get("farg_kind"))
    bad = []
    rng = np.random.default_rng(case["data_seed"])
    theta = dict(zip(params, case["theta"]))
    for p in F:
        theta[params[p]] = farg[p]
    try:
        with np.errstate(all="ignore"), warnings.catch_warnings():
            warnings.simplefilter("ignore")
            data = [np.asarray(cls(**theta).draw_sample(case["n"], random_state=rng), dtype=float) for _ in range(3)]
            inst = cls(**{"f_" + params[p]: farg[p] for p in F})
            deps = {params[p]: _Dep() for p in range(len(params)) if p not in F}
            cd = vd.ConditionalDistribution(inst, deps)
            method, weights = case.get("method", "mle"), case.get("weights")
            cd.fit(data, [1.0, 2.0, 3.0], [(0.5, 1.5), (1.5, 2.5), (2.5, 3.5)], method, weights)
            direct = []
            for xi in data:
                d = cls(**{"f_" + params[p]: farg[p] for p in F})
                d.fit(xi, method, weights)
                direct.append(d.parameters)
        for i, ps in enumerate(cd.parameters_per_interval):
            for p in F:
                if not rel_close(ps[params[p]], farg[p]):
                    bad.append((_sig("ConditionalDistribution.fit", "fixed_after_fit", family=name),
                                f"interval {i}: {params[p]} = {ps[params[p]]!r}, fixed {farg[p]!r}"))
            # the free parameters are estimated by the requested method with the requested weights: the same numbers
            # as fitting the template's law to the interval's data directly
            if any(core.f2b(ps[pn]) != core.f2b(direct[i][pn]) for pn in params):
                bad.append((_sig("ConditionalDistribution.fit", "interval_fit_is_the_requested_fit", family=name),
                            f"interval {i} (method={method!r}, weights={weights!r}): {dict(ps)} but "
                            f"{name}(f_...).fit(data_i, {method!r}, {weights!r}) gives {dict(direct[i])}"))
        for given in (1.0, np.array([1.0, 2.5])):
            vals = cd._get_param_values(given)
            for p in F:
                if core.f2b(vals[params[p]]) != core.f2b(farg[p]):
                    bad.append((_sig("ConditionalDistribution._get_param_values", "fixed_constant_in_given", family=name),
                                f"after fit: {params[p]} = {vals[params[p]]!r}, fixed {farg[p]!r}"))
    except Exception as e:  # noqa: BLE001
        if _is_optimizer_failure(e):
            return bad
        bad.append((_sig("ConditionalDistribution.fit", "raises", family=name), type(e).__name__ + ": " + str(e)[:120]))
    return bad


# ---------------------------------------------------------------------------
# real fits


def rel_close(a, b, rtol=RTOL_FIXED):
    a, b = float(a), float(b)
    return a == b or abs(a - b) <= rtol * abs(b)


def _is_optimizer_failure(e):
    n = type(e).__name__
    return n in ("FitError", "FitSolverError", "FitDataError", "FitUniformFixedScaleDataError") or (
        isinstance(e, RuntimeError) and "nothing to optimize" in str(e))


OTHER = ("weibull", "lognormal", "gamma", "rounded")


def make_data(case):
    """data of the requested kind, compatible with the support the fixed values imply"""
    name = case["family"]
    cls, params = sentinel.family(name)
    rng = np.random.default_rng(case["data_seed"])
    n = case["n"]
    kind = case["data"]
    theta = dict(zip(params, case["theta"]))
    if kind in ("own", "own_other_theta"):
        if "loc" in theta and params.index("loc") not in case["fixed"]:
            theta["loc"] = 0.0  # virocon starts the optimiser at loc = 0: keep the start inside the support
        if kind == "own":
            for p in case["fixed"]:
                theta[params[p]] = case["farg"][p]
        with np.errstate(all="ignore"):
            x = np.asarray(cls(**theta).draw_sample(n, random_state=rng), dtype=float)
    else:
        if kind == "weibull":
            x = rng.weibull(1.7, n) * 2.0 + 0.05
        elif kind == "lognormal":
            x = rng.lognormal(0.3, 0.5, n)
        elif kind == "gamma":
            x = rng.gamma(2.5, 0.8, n) + 0.02
        elif kind == "whole":
            x = np.ceil(rng.weibull(1.6, n) * 4.0)  # whole numbers 1, 2, ... (counts, whole seconds)
        else:
            x = np.round(rng.weibull(1.4, n) * 3.0 + 0.1, 1) + 0.1
        if name == "VonMisesDistribution" and kind == "whole":
            x = np.clip(x, 1, 6) - 3.0
        elif name == "VonMisesDistribution":
            x = (x % (2 * np.pi)) - np.pi
        elif name == "BetaScipyDistribution":
            x = (x - x.min() + 0.05) / (x.max() - x.min() + 0.1)
    x = x[np.isfinite(x)]
    # support implied by fixed location / scale parameters
    fx = {params[p]: case["farg"][p] for p in case["fixed"]}
    if name == "WeibullDistribution" and "gamma" in fx:
        x = x[x > fx["gamma"]] if kind == "own" else x - x.min() + fx["gamma"] + 0.05
    if name in ("GammaScipyDistribution", "BetaScipyDistribution") and not kind.startswith("own"):
        lo = fx.get("loc", 0.0)
        sc = fx.get("scale", 1.0)
        if name == "BetaScipyDistribution":
            x = lo + sc * x if ("loc" in fx or "scale" in fx) else x
        elif "loc" in fx:
            x = x - x.min() + lo + 0.05
    return x


def as_container(x, container):
    """the data as the user hands them over: float ndarray (default), Python list, or - whole-number data - an
    integer-dtype ndarray"""
    if container == "list":
        return [float(v) for v in x]
    if container == "int":
        return np.asarray(x).astype(np.int64)
    return x


def base_slots(name):
    for r in TABLES["get"]:
        if (r["fam"], r["meth"], r["fixed"], r["expl"], r["mode"]) == (name, "cdf", [], [], 0) and r["result"]:
            return r["result"][2]
    return None


SCIPY_NAME = {"WeibullDistribution": "weibull_min", "LogNormalDistribution": "lognorm", "NormalDistribution": "norm",
              "ExponentiatedWeibullDistribution": "exponweib", "GeneralizedGammaDistribution": "gengamma",
              "VonMisesDistribution": "vonmises", "GammaScipyDistribution": "gamma", "BetaScipyDistribution": "beta",
              "GumbelScipyDistribution": "gumbel_r"}


def reference_fit(case, x, before):
    """scipy fit with the slots pinned that the parameter map (not the code's keyword translation) assigns to
    the fixed parameters; starts as recorded for this family. None if the family does not call scipy."""
    name = case["family"]
    cls, params = sentinel.family(name)
    F, farg = case["fixed"], case["farg"]
    row = [r for r in TABLES["fit"] if r["fam"] == name and r["fixed"] == F]
    base = base_slots(name)
    if base is None or case.get("method", "mle").lower() != "mle":
        return None
    x = np.asarray(x, dtype=float)
    if not row or row[0]["outcome"][0] != "called":
        # the symbolic run of _fit_mle did not reach scipy (e.g. it branched on the truth value of a fixed
        # parameter): fall back to scipy's own start values; check_fit then judges with a looser tolerance
        dist = SCIPY_NAME.get(name)
        if dist is None:
            return None
        starts, kws = [], []
        case["_fallback_reference"] = True
    else:
        _, dist, starts, kws = row[0]["outcome"]
    d = getattr(sts, dist)
    n = len([s for s in d.shapes.split(",")]) if d.shapes else 0
    env = {}
    for p, pn in enumerate(params):
        env[("arg", p)] = float(before[pn])
        env[("farg", p)] = float(farg[p])
    pins = {}
    for j in range(n + 2):
        e = base[j] if j < len(base) else sentinel.S("int", 0 if j == n else 1)
        ps = arg_params(e)
        if all(p in F for p in ps):
            v = sentinel.evaluate(e, {("arg", p): float(farg[p]) for p in ps})
            pins["floc" if j == n else "fscale" if j == n + 1 else f"f{j}"] = v
    try:
        pos = [sentinel.evaluate(e, env) for e in starts]
        other = {k: sentinel.evaluate(v, env) for k, v in kws if k in ("loc", "scale")}
        with np.errstate(all="ignore"), warnings.catch_warnings():
            warnings.simplefilter("ignore")
            res = d.fit(x, *pos, **other, **pins)
        idx = {("floc" if j == n else "fscale" if j == n + 1 else f"f{j}"): j for j in range(n + 2)}
        return dist, [float(v) for v in res], {idx[k]: float(v) for k, v in pins.items()}
    except Exception:  # noqa: BLE001  (reference not computable: no verdict from this oracle)
        return None


def arg_params(e):
    if e.op == "arg":
        return [e.args[0]]
    out = []
    for a in e.args:
        if isinstance(a, sentinel.S):
            out += arg_params(a)
    return out


def check_fit(case):
    """one real fit; returns (bad, info)"""
    name = case["family"]
    cls, params = sentinel.family(name)
    F, farg = case["fixed"], case["farg"]
    bad, info = [], {}
    farg_given = as_given(farg, case.get("farg_kind"))
    farg = [float(v) for v in farg]
    with np.errstate(all="ignore"), warnings.catch_warnings():
        warnings.simplefilter("ignore")
        x = make_data(case)
        xc = as_container(x, case.get("container"))
        inst = cls(**{"f_" + params[p]: farg_given[p] for p in F})
        before = dict(inst.parameters)
        try:
            inst.fit(xc, case.get("method", "mle"), *( [case["weights"]] if "weights" in case else []))
        except Exception as e:  # noqa: BLE001
            if _is_optimizer_failure(e):
                info["optimizer_failure"] = type(e).__name__
                return bad, info
            if case.get("method", "mle").lower() != "mle" and isinstance(e, NotImplementedError):
                info["not_implemented"] = True
                return bad, info
            bad.append((_sig(name + ".fit", "fit_succeeds", method=case.get("method", "mle").lower()),
                        f"fixed {[params[p] for p in F]} (method={case.get('method', 'mle')!r}, data as "
                        f"{case.get('container') or 'float ndarray'}): {type(e).__name__}: {str(e)[:120]}"))
            return bad, info
    after = dict(inst.parameters)
    # reference: scipy's own fit with exactly the slots pinned that the parameter map (not the code's keyword
    # translation) assigns to the fixed parameters, same starts as the code used
    ref = reference_fit(case, x, before)
    if ref is not None:
        dist, want, pins = ref
        d = getattr(sts, dist)
        base = base_slots(name)

        def slots_of(ps):
            out = [sentinel.evaluate(e, {("arg", p): float(ps[pn]) for p, pn in enumerate(params)}) for e in base]
            if len(out) < len(want):  # slots the family does not pass: scipy's defaults loc = 0, scale = 1
                out += [0.0, 1.0][len(out) - len(want):]
            return out

        got, start = slots_of(after), slots_of(before)
        info["reference"] = True
        for j, v in pins.items():
            if not rel_close(got[j], v):
                bad.append((_sig(name + ".fit", "pinned_slot_after_fit", method="mle"),
                            f"fixed {[params[q] for q in F]}: scipy slot {j} is {got[j]!r} after the fit, the parameter "
                            f"map puts {v!r} there"))
        with np.errstate(all="ignore"):
            nll_code, nll_ref = float(d.nnlf(got, x)), float(d.nnlf(want, x))
        # the estimate is the one *given* the fixed values: at least as likely as scipy's pinned fit
        slack = 1e-3 if case.get("_fallback_reference") else 1e-6
        if np.isfinite(nll_ref) and not nll_code <= nll_ref + slack * max(1.0, abs(nll_ref)):
            bad.append((_sig(name + ".fit", "estimate_given_fixed", method="mle"),
                        f"fixed {[params[q] for q in F]}={[farg[q] for q in F]}: negative log-likelihood {nll_code!r} at "
                        f"the fitted scipy slots {got}, but scipy.stats.{dist}.fit with exactly the mapped slots pinned "
                        f"{pins} reaches {nll_ref!r} at {want}"))
        for j in range(len(base)):
            if j not in pins and got[j] == start[j] and want[j] != start[j]:
                bad.append((_sig(name + ".fit", "free_estimated", method="mle"),
                            f"scipy slot {j} = {got[j]!r} unchanged by the fit (fixed {[params[q] for q in F]}), "
                            f"scipy's own fit moves it to {want[j]!r}"))
    for p, pn in enumerate(params):
        v = after[pn]
        if p in F:
            if not rel_close(v, farg[p]):
                bad.append((_sig(name + ".fit", "fixed_after_fit", method=case.get("method", "mle")),
                            f"f_{pn}={farg[p]!r} but {pn}={float(v)!r} after fit (relative error "
                            f"{abs(float(v) - farg[p]) / abs(farg[p]) if farg[p] else float('inf'):.3g})"))
        else:
            if not np.isfinite(float(v)):
                bad.append((_sig(name + ".fit", "free_finite", method=case.get("method", "mle")), f"{pn} = {v!r} after fit"))
            elif float(v) == float(before[pn]) and ref is None:
                bad.append((_sig(name + ".fit", "free_estimated", method=case.get("method", "mle")),
                            f"{pn} = {v!r} unchanged by the fit (fixed {[params[q] for q in F]})"))
            elif float(v) == float(before[pn]):
                info["free_not_moved"] = pn  # stuck at its start also in scipy's own pinned fit: the optimiser's
    if name == "LogNormalNormFitDistribution" and case.get("method", "mle").lower() == "mle":
        # the family's documented estimator (moments of the data: mean, ddof-1 standard deviation) for the free parameter
        xf = np.asarray(x, dtype=float)
        doc = {"mu_norm": float(np.mean(xf)), "sigma_norm": float(np.std(xf, ddof=1))}
        info["reference"] = True
        for p, pn in enumerate(params):
            if p not in F and not rel_close(after[pn], doc[pn]):
                bad.append((_sig(name + ".fit", "estimate_given_fixed", method="mle"),
                            f"fixed {[params[q] for q in F]}: {pn} = {float(after[pn])!r} after the fit, the moment estimate "
                            f"of the data is {doc[pn]!r}"))
    # still that value after fitting - also after a SECOND fit of the same object (to other data)
    with np.errstate(all="ignore"), warnings.catch_warnings():
        warnings.simplefilter("ignore")
        x2 = np.asarray(x, dtype=float)[np.random.default_rng(case["data_seed"] + 1).integers(0, len(x), len(x))]
        try:
            inst.fit(as_container(x2, case.get("container")), case.get("method", "mle"),
                     *([case["weights"]] if "weights" in case else []))
            again = dict(inst.parameters)
        except Exception as e:  # noqa: BLE001
            again = None
            if not _is_optimizer_failure(e):
                bad.append((_sig(name + ".fit", "second_fit_succeeds", method=case.get("method", "mle").lower()),
                            f"fixed {[params[p] for p in F]}: second fit of the same object: {type(e).__name__}: {str(e)[:120]}"))
    if again is not None:
        info["second_fit"] = True
        for p, pn in enumerate(params):
            fa = getattr(inst, "f_" + pn, None)
            if p in F and (not rel_close(again[pn], farg[p]) or fa is None or not rel_close(fa, farg[p])):
                bad.append((_sig(name + ".fit", "fixed_after_second_fit", method=case.get("method", "mle").lower()),
                            f"f_{pn}={farg[p]!r} given; after a second fit of the same object {pn}={again[pn]!r}, f_{pn}={fa!r}"))
            elif p not in F and (fa is not None or not np.isfinite(float(again[pn]))):
                bad.append((_sig(name + ".fit", "free_after_second_fit", method=case.get("method", "mle").lower()),
                            f"{pn} = {again[pn]!r}, f_{pn} = {fa!r} after a second fit of the same object"))
        # put the object back into the state after the first fit for the evaluation check below
        for pn, v in after.items():
            try:
                setattr(inst, pn, v)
            except AttributeError:
                pass
    # evaluation after the fit uses the fixed value
    with np.errstate(all="ignore"):
        xs = np.quantile(np.asarray(x, dtype=float), [0.2, 0.5, 0.8])
        eff = {pn: (farg[p] if p in F else float(after[pn])) for p, pn in enumerate(params)}
        try:
            if not sentinel.same_values(inst.cdf(xs), cls(**eff).cdf(xs), rtol=1e-10):
                bad.append((_sig(name + ".cdf", "fixed_used_after_fit"), f"cdf after fit differs from {name}(**{eff}).cdf"))
        except Exception as e:  # noqa: BLE001
            bad.append((_sig(name + ".cdf", "fixed_used_after_fit"), type(e).__name__ + str(e)[:80]))
    info["after"] = {k: float(v) for k, v in after.items()}
    return bad, info


def fit_cases(rng, thorough):
    n_sets = 20 if thorough else 1
    for name, _, params in sentinel.live_families():
        k = len(params)
        subs = [F for F in sentinel.subsets(k) if 0 < len(F) < k]
        for F in subs:
            if name == "BetaScipyDistribution" and not thorough and len(F) not in (1, 3):
                continue
            for rep in range(n_sets):
                for kind in ("own", "own_other_theta") + OTHER:
                    if not thorough and kind in ("gamma", "rounded") and rep == 0 and len(F) > 1:
                        continue
                    case = {"kind": "fit", "family": name, "fixed": F,
                            "farg": sentinel.random_values(rng, name, wide=False),
                            "theta": sentinel.random_values(rng, name, wide=False),
                            "data": kind, "n": int(rng.choice([500, 2000, 5000])) if thorough else 300,
                            "data_seed": int(rng.integers(0, 2**31))}
                    # how the call is written: method spelled in upper / mixed case (the code lower-cases it), data as a list
                    r = int(rng.integers(0, 6))
                    if r in (0, 1):
                        case["method"] = ("MLE", "Mle")[r]
                    if int(rng.integers(0, 5)) == 0:
                        case["container"] = "list"
                    yield case


ZERO_ADMISSIBLE = {"gamma", "mu", "loc"}  # location-type parameters: the value 0 is a legitimate fixed value


def zero_fixed_cases(rng):
    """boundary stream: a parameter fixed at exactly 0 / 0.0 (falsy in Python) must be honoured like any other"""
    for name, _, params in sentinel.live_families():
        for j, pname in enumerate(params):
            if pname not in ZERO_ADMISSIBLE or len(params) < 2:
                continue
            for zero in (0, 0.0):
                farg = sentinel.random_values(rng, name, wide=False)
                theta = sentinel.random_values(rng, name, wide=False)
                farg[j] = zero
                theta[j] = 0.4  # data generated away from the fixed value, so that an ignored fixing shows
                yield {"kind": "fit", "family": name, "fixed": [j], "farg": farg, "theta": theta,
                       "data": "own_other_theta", "n": 300, "data_seed": int(rng.integers(0, 2**31)), "gen": "zero-fixed"}


def wrapped_angle_cases(rng):
    """boundary stream: the von Mises location fixed at an angle outside the principal interval [-pi, pi) (scipy's fit
    wraps the location it returns into that interval) or at pi itself is still THAT value after fitting"""
    name = "VonMisesDistribution"
    _, params = sentinel.family(name)
    j = params.index("mu")
    for val in (4.0, -4.5, math.pi, 7.5):
        farg = sentinel.random_values(rng, name, wide=False)
        theta = sentinel.random_values(rng, name, wide=False)
        farg[j] = val
        yield {"kind": "fit", "family": name, "fixed": [j], "farg": farg, "theta": theta,
               "data": "own", "n": 300, "data_seed": int(rng.integers(0, 2**31)), "gen": "wrapped-angle"}


LOCATION_LIKE = {"gamma", "mu", "loc", "mu_norm"}


def value_class_cases(rng):
    """value classes of the fixed value through a real fit: whole numbers as Python ints (`f_delta=5`), numpy scalars
    (np.float64 / np.int64); and whole-number data handed over as an integer-dtype ndarray"""
    for name, _, params in sentinel.live_families():
        if len(params) < 2:
            continue
        for j, pname in enumerate(params):
            farg = sentinel.random_values(rng, name, wide=False)
            theta = sentinel.random_values(rng, name, wide=False)
            kind = ("python", "numpy")[int(rng.integers(0, 2))]
            if pname not in LOCATION_LIKE and name != "BetaScipyDistribution" or kind == "python":
                farg[j] = int(max(1, round(farg[j]))) if farg[j] > 0 else int(round(farg[j]))
            if name == "BetaScipyDistribution" and pname in ("loc", "scale"):
                farg[j] = float(farg[j])
            yield {"kind": "fit", "family": name, "fixed": [j], "farg": farg, "farg_kind": kind, "theta": theta,
                   "data": "own", "n": 300, "data_seed": int(rng.integers(0, 2**31)), "gen": "fixed-value-class"}
        if name == "BetaScipyDistribution":
            continue
        free_of_location = [j for j, pn in enumerate(params) if pn not in LOCATION_LIKE and pn != "scale"]
        if free_of_location:
            j = free_of_location[int(rng.integers(0, len(free_of_location)))]
            farg = sentinel.random_values(rng, name, wide=False)
            if name == "LogNormalNormFitDistribution":
                farg[j] = 2.0
            yield {"kind": "fit", "family": name, "fixed": [j], "farg": farg,
                   "theta": sentinel.random_values(rng, name, wide=False), "data": "whole", "container": "int", "n": 300,
                   "data_seed": int(rng.integers(0, 2**31)), "gen": "integer-dtype-data"}


def corpus_cases():
    """witnesses of DESIGN section 4 #2, #3, #4 and of the two defects found here (corpus/C11, run first)"""
    import glob
    import json
    import os

    for fn in sorted(glob.glob(os.path.join(core.VERIF, "corpus", "C11", "*.json"))):
        for c in json.load(open(fn)):
            c.pop("note", None)
            yield c


def _fit_worker(case):
    try:
        bad, info = check_fit(case)
        return case, bad, info
    except Exception as e:  # noqa: BLE001
        return case, [(_sig(case["family"] + ".fit", "harness_exception"), repr(e)[:200])], {}


def run_fits(ck, cases, workers):
    if workers > 1:
        import multiprocessing as mp

        with mp.get_context("fork").Pool(workers) as pool:
            results = pool.imap(_fit_worker, cases, chunksize=4)
            results = list(results)
    else:
        results = [_fit_worker(c) for c in cases]
    for case, bad, info in results:
        ck.case(case, nontrivial=True, sample=(len(ck.samples) < 4))
        ck.count("fit:" + case["family"])
        ck.count("fitdata:" + case["data"])
        ck.count("fit_call:method=" + case.get("method", "mle") + ":data=" + (case.get("container") or "float ndarray"))
        if case.get("gen"):
            ck.count("fitgen:" + case["gen"])
        if info.get("second_fit"):
            ck.count("fit:second_fit_of_the_same_object")
        if info.get("reference"):
            ck.count("fit:compared_with_reference_fit")
        if "free_not_moved" in info:
            ck.count("scipy_optimizer_stuck_at_start")
        if "optimizer_failure" in info:
            ck.count("scipy_optimizer_failure:" + info["optimizer_failure"])
        else:
            ck.hyp_checked += len(case["fixed"])
        for sig, detail in bad:
            ck.fail(sig, case, detail)


# ---------------------------------------------------------------------------
# least squares of the exponentiated Weibull


def lsq_cases(rng, n_cases):
    for name, _, params in sentinel.live_families():
        for F in sentinel.subsets(len(params)):
            reps = n_cases if name == "ExponentiatedWeibullDistribution" else 1
            for _ in range(reps):
                yield {"kind": "lsq", "family": name, "fixed": F,
                       "farg": sentinel.random_values(rng, name, wide=False),
                       "theta": sentinel.random_values(rng, name, wide=False),
                       "data": str(rng.choice(["own", "own_other_theta", "weibull", "rounded"])),
                       "n": int(rng.choice([30, 200, 1000])), "data_seed": int(rng.integers(0, 2**31)),
                       "method": str(rng.choice(["lsq", "wlsq"])),
                       "weights": [None, "linear", "quadratic", "cubic"][int(rng.integers(0, 4))]}


def check_lsq(case):
    name = case["family"]
    cls, params = sentinel.family(name)
    F, farg = case["fixed"], case["farg"]
    supported = name == "ExponentiatedWeibullDistribution" and F in ([], [2])
    bad = []
    with np.errstate(all="ignore"), warnings.catch_warnings():
        warnings.simplefilter("ignore")
        x = make_data(case)
        x = x[x > 0] if name == "ExponentiatedWeibullDistribution" else x
        inst = cls(**{"f_" + params[p]: farg[p] for p in F})
        try:
            inst.fit(x, case["method"], case["weights"])
            ok, exc = True, None
        except Exception as e:  # noqa: BLE001
            ok, exc = False, e
    ent = name + ".fit"
    if supported:
        if not ok:
            bad.append((_sig(ent, "fit_succeeds", method="lsq"), f"fixed {[params[p] for p in F]}: {type(exc).__name__}: {str(exc)[:100]}"))
            return bad
        after = inst.parameters
        for p in F:
            if core.f2b(after[params[p]]) != core.f2b(farg[p]):
                bad.append((_sig(ent, "fixed_after_fit", method="lsq"),
                            f"f_{params[p]}={farg[p]!r} but {params[p]}={after[params[p]]!r} after the least-squares fit"))
        for p, pn in enumerate(params):
            if p not in F and not np.isfinite(float(after[pn])):
                bad.append((_sig(ent, "free_finite", method="lsq"), f"{pn} = {after[pn]!r}"))
            if p not in F and pn != "delta" and float(after[pn]) == 1.0:
                bad.append((_sig(ent, "free_estimated", method="lsq"), f"{pn} unchanged"))
        # estimated = the weighted least-squares estimate at the delta in force (independent exact regression of C13)
        import c13

        ref = c13.ref_fit([float(v) for v in x], case["weights"], float(after["delta"]))
        if ref is not None and all(np.isfinite(float(v)) for v in after.values()):
            rb, ta = c13.tolerances(ref, ref["n"])
            ra = np.log(10) * ta + 1e-13
            if not (c13.close(float(after["beta"]), ref["beta"], rb) and c13.close(float(after["alpha"]), ref["alpha"], ra)):
                bad.append((_sig(ent, "free_estimated", method="lsq"),
                            f"fixed {[params[p] for p in F]}: fit gives alpha={float(after['alpha'])!r}, beta={float(after['beta'])!r}; the "
                            f"weighted least-squares estimate at delta={float(after['delta'])!r} (weights={case['weights']!r}) is "
                            f"alpha={ref['alpha']!r}, beta={ref['beta']!r}"))
    else:
        if ok or not isinstance(exc, NotImplementedError):
            bad.append((_sig(ent, "unsupported_lsq_refused", method="lsq"),
                        f"fixed {[params[p] for p in F]}: expected NotImplementedError, got "
                        f"{'a result' if ok else type(exc).__name__}"))
    return bad


# ---------------------------------------------------------------------------
# grammar model vs scipy


def grammar_check(ck):
    """Model `fitTarget` vs what scipy.stats.<d>.fit accepts and pins (optimizer short-circuited)."""
    dists = sorted({r["outcome"][1] for r in TABLES["fit"] if r["outcome"][0] == "called"} |
                   {"weibull_min", "lognorm", "norm", "exponweib", "gengamma", "vonmises", "gamma", "beta", "gumbel_r"})
    rng = np.random.default_rng(12345)
    lines, todo = [], []
    for dn in dists:
        d = getattr(sts, dn)
        shapes = [s.strip() for s in d.shapes.split(",")] if d.shapes else []
        kws = ["floc", "fscale", "fshape", "fshape1", "fshape2", "f", "fix_", "f_loc", "flocation", "f00", "f-1",
               "fix_loc", "fixed_a", "F0", "f0 "[:2]]
        kws += [f"f{i}" for i in range(5)]
        for s in shapes + ["a", "c", "kappa", "s", "b", "zz"]:
            kws += ["f" + s, "fix_" + s, "f_" + s]
        for kw in sorted(set(kws)):
            lines.append(["RUN", "c11kw", kw] + shapes)
            todo.append((dn, d, shapes, kw))
    answers = ck.driver.run(lines)
    data = {"vonmises": rng.vonmises(0.3, 2.0, 40), "norm": rng.normal(1, 2, 40), "beta": rng.beta(2, 3, 40)}
    for (dn, d, shapes, kw), ans in zip(todo, answers):
        t = ans.split()
        model = None if t[1] == "-" else int(t[1])
        x = data.get(dn, rng.weibull(1.5, 40) + 0.3)
        n = len(shapes)
        # value to pin: distinctive and admissible for a shape / loc / scale alike
        val = 1.28125 if dn != "beta" or kw not in ("floc",) else -0.0625
        starts = [1.5] * n
        real = "?"
        try:
            with np.errstate(all="ignore"), warnings.catch_warnings():
                warnings.simplefilter("ignore")
                res = d.fit(x, *starts, **{kw: val},
                            **({} if dn == "vonmises" else {"optimizer": lambda func, x0, args=(), disp=0: x0}))
            hit = [j for j, v in enumerate(res) if float(v) == val]
            real = hit[0] if len(hit) == 1 else ("ambiguous", [float(v) for v in res])
        except TypeError as e:
            real = None if "nknown" in str(e) else ("TypeError", str(e)[:80])
        except Exception as e:  # noqa: BLE001
            real = ("exc", type(e).__name__ + str(e)[:60])
        case = {"kind": "grammar", "dist": dn, "shapes": shapes, "kw": kw}
        ck.case(case, nontrivial=model is not None, sample=False)
        ck.count("grammar:" + ("accepted" if model is not None else "rejected"))
        if isinstance(real, tuple):
            # scipy refused for another reason (e.g. value inadmissible): not informative
            ck.count("grammar:uninformative")
            continue
        if real != model:
            ck.diverge("c11:fitTarget", case, f"model says slot {model}, scipy.stats.{dn}.fit says {real}")


# ---------------------------------------------------------------------------


def main(ck):
    rng = np.random.default_rng(ck.seed)
    thorough = ck.tier == "thorough"
    ck.rule = (
        "(1) every row of the generated constructor / call / ConditionalDistribution tables re-executed with random "
        "concrete values; (2) real MLE fits for every family x every non-empty proper subset of fixed parameters x "
        "data from the family (at and away from the fixed values) and from other families (Weibull, log-normal, gamma, "
        "rounded); (3) least-squares fits for every family x every subset (supported: exponentiated Weibull with "
        "nothing / delta fixed) x weights, (alpha, beta) compared with the exact weighted regression at the delta in "
        "force; (4) ConditionalDistribution with and without fit (MLE for every family; exponentiated Weibull with f_delta "
        "by lsq / wlsq with keyword weights: per-interval result = the requested direct fit); (5) the keyword-grammar "
        "model vs scipy on accepted and rejected keywords; (6) draw_sample of an instance with fixed parameters and of a "
        "ConditionalDistribution over it (scalar and array conditioning values) vs the instance constructed with the "
        "effective values, same seed. Fixed values as Python float / int, numpy scalars, exact 0 / 0.0 of location "
        "parameters; every real fit is followed by a second fit of the same object on resampled data; method spelled mle "
        "/ MLE / Mle, data as float ndarray / list / integer-dtype ndarray. Non-trivial: at least one fixed parameter; "
        "distinct by SHA1")
    ck.assumptions = [
        "scipy.stats.<d>.fit returns a slot fixed by f0/f<name>/fix_<name>/floc/fscale unchanged (contract used by "
        "fit_keywords_accepted_and_targeted; observed on every real fit of this run)",
        "scipy optimiser failures (FitError & co.) are scipy's, counted but not reported as violations",
    ]
    ck.partial = {
        "ew_lsq_supported_sets_observed": "the ok / kept flags of the least-squares table are recorded from one concrete "
                                          "run per (family, fixed set); kept-for-any-data is observed on the real fits",
        "fixed_survives_fit_partial, fixed_survives_fit_rows_partial": "after-fit value of a fixed parameter: proven symbolically under scipy's contract and "
                                      "over the reals (log(exp v) = v, 1/(1/v) = v); the 1e-12 relative round-off bound "
                                      "is observed on the real fits",
        "free parameters estimated": "that free parameters are finite and moved by the fit is observed, not proven",
        "draw_sample": "the generated call table covers cdf / icdf / pdf; that draw_sample (of an instance with fixed "
                       "parameters, and of a ConditionalDistribution over it) uses the fixed values is observed per run by "
                       "seeded comparison with the instance constructed with the effective values",
        "value classes / object re-use": "fixed values given as Python ints, numpy scalars, exact zeros; a second fit of "
                                         "the same object; method spelled 'MLE'; list / integer-dtype data; the OMAE2020 "
                                         "configuration (EW f_delta, wlsq, quadratic weights through a ConditionalDistribution): "
                                         "observed per run",
    }
    if ck.proof_problems:
        bad = c05.lean_bad_rows("C11")
        ck.extra["table_rows_rejected_by_lean"] = {k: [list(map(str, b)) for b in v][:30] for k, v in bad.items()}
    # corpus
    corpus = list(corpus_cases())
    run_fits(ck, [c for c in corpus if c["kind"] == "fit"], 1)
    for case in [c for c in corpus if c["kind"] == "ctor"]:
        ck.case(case, nontrivial=True, sample=False)
        for sig, detail in check_ctor(case):
            ck.fail(sig, case, detail)
    for name, (pred, text) in sentinel.FAMILY_ERRORS.items():
        # no parameter of the family can be declared fixed by its documented name
        case = {"kind": "family", "family": name}
        ck.case(case, nontrivial=True, sample=False)
        ck.fail(_sig(name + ".__init__", pred, call=CTOR_CALL[0]), case, text)
    # (1) tables, concretely
    run_ctor_rows(ck, rng, 3 if thorough else 1)
    observe_unknown_keywords(ck)
    c05.run_rows(ck, TABLES["get"], rng, 2 if thorough else 1, only_fixed=True)
    for row in TABLES["cond"]:
        name = row["fam"]
        if name in sentinel.FAMILY_ERRORS:
            continue
        _, params = sentinel.family(name)
        farg, kind = vary_fixed_values(rng, name, params, sentinel.random_values(rng, name, wide=False))
        case = {"kind": "cond", "family": name, "fixed": row["fixed"],
                "farg": farg, "farg_kind": kind,
                "dep": sentinel.random_values(rng, name, wide=False)}
        bad = check_cond(case)
        ck.case(case, nontrivial=True, sample=False)
        ck.count("cond:" + name)
        for sig, detail in bad:
            ck.fail(sig, case, detail)
        # draw_sample with fixed parameters (directly and through the ConditionalDistribution)
        case = {"kind": "draw", "family": name, "fixed": row["fixed"],
                "farg": sentinel.random_values(rng, name, wide=False), "farg_kind": kind,
                "arg": sentinel.random_values(rng, name, wide=False),
                "dep": sentinel.random_values(rng, name, wide=False), "n": 4, "seed": int(rng.integers(0, 2**31))}
        bad = check_draw(case)
        ck.case(case, nontrivial=True, sample=False)
        ck.count("draw_sample:" + name)
        for sig, detail in bad:
            ck.fail(sig, case, detail)
    # (2) real fits
    run_fits(ck, list(zero_fixed_cases(rng)) + list(wrapped_angle_cases(np.random.default_rng([ck.seed, 11]))) + list(value_class_cases(rng))
             + list(fit_cases(rng, thorough)),
             8 if thorough else 4)
    # (3) least squares
    for case in lsq_cases(rng, 12 if thorough else 3):
        bad = check_lsq(case)
        ck.case(case, nontrivial=bool(case["fixed"]), sample=False)
        ck.count("lsq:" + case["family"])
        for sig, detail in bad:
            ck.fail(sig, case, detail)
    # (4) ConditionalDistribution.fit
    for name, _, params in sentinel.live_families():
        subs = [F for F in sentinel.subsets(len(params)) if 0 < len(F) < len(params)]
        for F in (subs if thorough else subs[:2]):
            case = {"kind": "condfit", "family": name, "fixed": F,
                    "farg": sentinel.random_values(rng, name, wide=False),
                    "theta": sentinel.random_values(rng, name, wide=False),
                    "n": 200, "data_seed": int(rng.integers(0, 2**31))}
            bad = check_cond_fit(case)
            ck.case(case, nontrivial=True, sample=False)
            ck.count("condfit:" + name)
            for sig, detail in bad:
                ck.fail(sig, case, detail)
    # the OMAE2020 configuration: exponentiated Weibull with delta fixed (also as a Python int, f_delta=5), fitted by
    # weighted least squares through a ConditionalDistribution
    for method, weights, fdelta in (("wlsq", "quadratic", 5), ("lsq", None, 1.3), ("WLSQ", "linear", 0.7), ("mle", "quadratic", 2),
                                    ("wlsq", "cubic", 5.0))[: 5 if thorough else 3]:
        name = "ExponentiatedWeibullDistribution"
        if name in sentinel.FAMILY_ERRORS:
            break
        _, params = sentinel.family(name)
        j = params.index("delta")
        farg = sentinel.random_values(rng, name, wide=False)
        farg[j] = fdelta
        case = {"kind": "condfit", "family": name, "fixed": [j], "farg": farg,
                "theta": sentinel.random_values(rng, name, wide=False), "n": 200,
                "data_seed": int(rng.integers(0, 2**31)), "method": method, "weights": weights}
        bad = check_cond_fit(case)
        ck.case(case, nontrivial=True, sample=False)
        ck.count("condfit:" + name + ":" + method + ":" + str(weights))
        for sig, detail in bad:
            ck.fail(sig, case, detail)
    # (5) grammar
    grammar_check(ck)
    ck.extra["exhaustive"] = False
    ck.extra["generated_rows"] = {k: len(TABLES[k]) for k in ("get", "ctor", "cond", "fit", "lsq")}
    ck.extra["generated_rows_exhaustive"] = True


def replay(ck, payload):
    case = payload["case"]
    kind = case["kind"]
    if kind == "family":
        bad = [(_sig(case["family"] + ".__init__", pred, call=CTOR_CALL[0]), text)
               for n, (pred, text) in sentinel.FAMILY_ERRORS.items() if n == case["family"]]
    elif kind == "ctor":
        bad = check_ctor(case)
    elif kind == "fit":
        bad, _ = check_fit(case)
    elif kind == "lsq":
        bad = check_lsq(case)
    elif kind == "cond":
        bad = check_cond(case)
    elif kind == "condfit":
        bad = check_cond_fit(case)
    elif kind == "draw":
        bad = check_draw(case)
    elif kind == "row":
        row = None
        for r in TABLES["get"]:
            if (r["fam"], r["meth"], r["fixed"], r["expl"], r["mode"]) == (
                    case["family"], case["meth"], case["fixed"], case["expl"], case["mode"]):
                row = r
        bad = c05.check_row(ck, row, case)
    else:
        bad = []
    for sig, detail in bad:
        print("oracle:", sig, detail)
    return not bad
