"""
C15 - HDC coordinates are exactly the boundary cells of the enclosed region; the point sorter
returns a permutation of its input.

Correspondence (real code in-process vs Lean model, Model/Grid.lean + Model/Dfs.lean)
  (A) random regions (blobs, rings, multi-modal, border-touching, noise, degenerate; 2-D and 3-D,
      isotropic and anisotropic deltas) INJECTED into a real HighestDensityContour (the selection
      routine is overridden to return the region, everything after it - erosion, labelling,
      coordinate gathering, sorting - is virocon's own `_compute`): boundary mask and labels as
      observed at the scipy.ndimage calls inside `_compute` (recording proxy) and the returned
      `.coordinates` vs the model's boundary mask, component partition/numbering and gathered rows;
  (B) real HighestDensityContour objects on hierarchical models (rational doubles, shipped
      families, a bimodal mixture double), isotropic and anisotropic deltas (ratios 2, 5, 10),
      explicit and default limits: same comparison on the region `_compute` selected;
  (C) sort_points_to_form_continuous_line on regular / irregular / clustered / duplicated point
      sets, k-NN lists passed to the model (sklearn is a leaf): order compared exactly; a
      different optimal start is accepted only if its exact (rational) path cost ties within 1e-9.
Oracle on the implementation's own output
  coordinates as a multiset = centres of the boundary cells (computed from the definition:
  region cell with one of its 3^n-1 neighbours outside region or grid), each exactly once, one
  set per boundary component; sorter output multiset = input multiset.
"""
import itertools
import math
import os
import warnings
from collections import Counter
from fractions import Fraction

import numpy as np

from core import f2b, fl, il

ENTRY_HDC = "HighestDensityContour.coordinates"
ENTRY_SORT = "sort_points_to_form_continuous_line"


# --------------------------------------------------------------------------- real-code access

class NdiProxy:
    """stands in for `virocon.contours.ndi` inside the harness process: records what `_compute`
    hands to / receives from scipy.ndimage"""

    def __init__(self, real):
        self._real = real
        self.rec = {}

    def __getattr__(self, name):
        return getattr(self._real, name)

    def binary_erosion(self, input, *a, **k):
        out = self._real.binary_erosion(input, *a, **k)
        self.rec["erosion_in"] = np.array(input)
        self.rec["erosion_out"] = np.array(out)
        return out

    def label(self, input, *a, **k):
        out = self._real.label(input, *a, **k)
        self.rec["label_in"] = np.array(input)
        self.rec["label_out"] = np.array(out[0])
        self.rec["n_modes"] = int(out[1])
        return out


def ndi_proxy():
    import virocon.contours as vc

    if not isinstance(getattr(vc, "ndi", None), NdiProxy):
        vc.ndi = NdiProxy(vc.ndi)
    vc.ndi.rec = {}
    return vc.ndi


class DummyModel:
    def __init__(self, n_dim):
        self.n_dim = n_dim


_classes = {}


def hdc_classes():
    if _classes:
        return _classes
    from virocon import HighestDensityContour

    class InjectHDC(HighestDensityContour):
        """the region is injected in place of the selection; the rest of _compute is real"""

        region = None

        def cell_averaged_joint_pdf(self, coords):
            return np.ones([len(c) for c in coords])

        @staticmethod
        def cumsum_biggest_until(array, limit):
            return InjectHDC.region.astype(float).copy(), 1.0

    class RecHDC(HighestDensityContour):
        """records the selection made inside _compute (fallback if the ndimage proxy saw nothing)"""

        rec = None

        @staticmethod
        def cumsum_biggest_until(array, limit):
            out = HighestDensityContour.cumsum_biggest_until(array, limit)
            RecHDC.rec = np.array(out[0]) != 0
            return out

    _classes.update(HDC=HighestDensityContour, Inject=InjectHDC, Rec=RecHDC)
    return _classes


# --------------------------------------------------------------------------- generators

def grid_axes(limits, deltas):
    return [np.arange(min(l), max(l) + d, d) for l, d in zip(limits, deltas)]


def random_grid(rng, thorough):
    nd = 2 if rng.integers(0, 3) else 3
    if nd == 2:
        mx = 400 if thorough and rng.integers(0, 6) == 0 else 60
    else:
        mx = 60 if thorough and rng.integers(0, 8) == 0 else 20
    shape = [int(rng.integers(3, mx + 1)) for _ in range(nd)]
    if rng.integers(0, 12) == 0:
        shape[int(rng.integers(0, nd))] = int(rng.integers(1, 3))  # degenerate axis
    base = float(rng.choice([0.05, 0.1, 0.25, 1.0]))
    ratio = [1.0] * nd
    if rng.integers(0, 3):
        for d in range(nd):
            ratio[d] = float(rng.choice([1, 1, 2, 5, 10]))
    deltas = [base * r for r in ratio]
    limits = []
    for d in range(nd):
        lo = float(rng.choice([0.0, 0.0, 0.5, -1.0]))
        limits.append([lo, lo + (shape[d] - 1) * deltas[d]])
    return nd, limits, deltas


def random_region(rng, shape):
    nd = len(shape)
    grids = np.meshgrid(*[np.arange(s, dtype=float) for s in shape], indexing="ij")
    kind = str(rng.choice(["blob", "blobs", "ring", "border", "noise", "field", "full", "empty", "single",
                           "blob", "blobs", "ring", "border", "field"]))

    def ellipsoid(centre, radii):
        return sum(((g - c) / r) ** 2 for g, c, r in zip(grids, centre, radii)) <= 1.0

    reg = np.zeros(shape, dtype=bool)
    if kind == "blob":
        reg = ellipsoid([rng.uniform(0.2, 0.8) * s for s in shape], [max(0.7, rng.uniform(0.1, 0.45) * s) for s in shape])
    elif kind == "blobs":
        for _ in range(int(rng.integers(2, 6))):
            reg |= ellipsoid([rng.uniform(0, 1) * s for s in shape], [max(0.6, rng.uniform(0.04, 0.25) * s) for s in shape])
    elif kind == "ring":
        c = [rng.uniform(0.35, 0.65) * s for s in shape]
        ro = [max(1.5, rng.uniform(0.25, 0.5) * s) for s in shape]
        ri = [r * rng.uniform(0.3, 0.8) for r in ro]
        reg = ellipsoid(c, ro) & ~ellipsoid(c, ri)
    elif kind == "border":
        for _ in range(int(rng.integers(1, 4))):
            c = [float(rng.choice([0.0, s - 1.0, rng.uniform(0, s)])) for s in shape]
            reg |= ellipsoid(c, [max(0.8, rng.uniform(0.1, 0.5) * s) for s in shape])
    elif kind == "noise":
        reg = rng.uniform(size=shape) < float(rng.choice([0.05, 0.3, 0.6, 0.95]))
    elif kind == "field":
        f = sum(np.cos(rng.uniform(0.05, 0.6) * g + rng.uniform(0, 6)) for g in grids)
        reg = f > float(np.quantile(f, rng.uniform(0.2, 0.8)))
    elif kind == "full":
        reg[...] = True
        if rng.integers(0, 2):
            reg[tuple(int(rng.integers(0, s)) for s in shape)] = False  # a pin-hole
    elif kind == "single":
        reg[tuple(int(rng.integers(0, s)) for s in shape)] = True
    return kind, np.asarray(reg, dtype=bool)


def gen_region_cases(rng, n, thorough):
    for _ in range(n):
        nd, limits, deltas = random_grid(rng, thorough)
        shape = [len(a) for a in grid_axes(limits, deltas)]
        for _ in range(8):
            kind, reg = random_region(rng, shape)
            # a single 2-D boundary component goes through the O(n^2) optimal-start search of the sorter: keep it
            # within the tier's budget (this only selects inputs; it is not used as an oracle)
            if len(shape) != 2 or int(boundary_by_definition(reg).sum()) <= (700 if not thorough else 1300):
                break
        yield {"part": "A", "kind": kind, "shape": shape, "limits": limits, "deltas": deltas,
               "bits": "".join("1" if v else "0" for v in reg.ravel())}


def corpus_cases():
    """fixed witnesses that run first: corpus/C15/*.json (minimised past failures), then built-in ones"""
    import glob
    import json

    from core import VERIF

    for fn in sorted(glob.glob(os.path.join(VERIF, "corpus", "C15", "*.json"))):
        d = json.load(open(fn))
        yield d.get("case", d)
    # defect #15: sea-state model of the test-suite with anisotropic deltas
    yield {"part": "B", "mode": "seastate", "alpha": 0.01, "limits": [[0, 20], [0, 18]], "deltas": [0.2, 0.8]}
    yield {"part": "B", "mode": "seastate", "alpha": 0.01, "limits": [[0, 20], [0, 18]], "deltas": [0.4, 0.4]}
    # a REAL highest-density region with a hole (four modes around a dip): one connected region, two boundary
    # components (outer and inner contour); the code returns a list of two coordinate sets
    yield {"part": "B", "mode": "mixture", "alpha": 0.1, "gen": "ring-real-model",
           "model": [[[1.2, 2.0], [1.2, 7.0]], [[1.2, 2.0], [1.2, 7.0]]], "limits": [[0.0, 12.0], [0.0, 12.0]],
           "deltas": [0.25, 0.5]}
    # anisotropic lattice rectangle outline: 2-NN graph falls apart into vertical pairs/triples
    xs, ys = [], []
    for i in range(12):
        for j in range(9):
            if i in (0, 11) or j in (0, 8):
                xs.append(0.05 * i)
                ys.append(0.2 * j)
    yield {"part": "C", "kind": "lattice-outline", "x": xs, "y": ys, "opt": True}
    # the test-suite's circle
    phi = np.linspace(0, 1.8 * np.pi, num=10, endpoint=False)
    idx = [5, 2, 0, 6, 9, 4, 1, 8, 3, 7]
    yield {"part": "C", "kind": "circle-test-suite", "x": [float(v) for v in np.cos(phi)[idx]],
           "y": [float(v) for v in np.sin(phi)[idx]], "opt": True}
    # two far clusters
    yield {"part": "C", "kind": "two-clusters", "x": [0.0, 1.0, 0.5, 100.0, 101.0, 100.5, 100.2],
           "y": [0.0, 0.0, 1.0, 0.0, 0.0, 1.0, 2.0], "opt": False}


def gen_sorter_cases(rng, n, thorough):
    for _ in range(n):
        kind = str(rng.choice(["circle", "ellipse", "lattice", "irregular", "noisy", "clustered", "random", "dupes"]))
        big = rng.integers(0, 10) == 0
        npts = int(rng.integers(8, 401 if big else (120 if not thorough else 200)))
        if rng.integers(0, 12) == 0:
            npts = int(rng.integers(1, 8))  # tiny point sets (1..7 points) are planar point sets too
        empty = rng.integers(0, 60) == 0  # ... and so is the empty one
        if kind == "circle":
            t = np.linspace(0, 2 * np.pi, npts, endpoint=False)
            x, y = np.cos(t), np.sin(t)
        elif kind == "ellipse":
            t = np.linspace(0, 2 * np.pi, npts, endpoint=False)
            x, y = float(rng.choice([2, 5, 10])) * np.cos(t), np.sin(t)
        elif kind == "lattice":
            a, b = int(rng.integers(3, 30)), int(rng.integers(3, 30))
            dx, dy = float(rng.choice([0.05, 0.1, 1.0])), float(rng.choice([0.05, 0.1, 0.2, 0.5, 1.0]))
            pts = [(dx * i, dy * j) for i in range(a) for j in range(b) if i in (0, a - 1) or j in (0, b - 1)]
            x, y = np.array([p[0] for p in pts]), np.array([p[1] for p in pts])
        elif kind == "irregular":
            t = np.sort(rng.uniform(0, 2 * np.pi, npts))
            r = 1 + 0.3 * np.sin(3 * t)
            x, y = r * np.cos(t), r * np.sin(t)
        elif kind == "noisy":
            t = np.linspace(0, 2 * np.pi, npts, endpoint=False)
            x = np.cos(t) + rng.normal(0, 0.02, npts)
            y = np.sin(t) + rng.normal(0, 0.02, npts)
        elif kind == "clustered":
            k = int(rng.integers(2, 6))
            cx, cy = rng.uniform(-50, 50, k), rng.uniform(-50, 50, k)
            w = rng.integers(0, k, npts)
            x, y = cx[w] + rng.normal(0, 0.5, npts), cy[w] + rng.normal(0, 0.5, npts)
        elif kind == "random":
            x, y = rng.uniform(0, 1, npts), rng.uniform(0, 1, npts)
        else:
            m = max(3, npts // 2)
            x, y = np.round(rng.uniform(0, 3, m), 0), np.round(rng.uniform(0, 3, m), 0)
        if rng.integers(0, 2) and kind != "lattice":
            p = rng.permutation(len(x))
            x, y = x[p], y[p]
        if empty:
            x, y = x[:0], y[:0]
        opt = bool(rng.integers(0, 2)) and len(x) <= (150 if not thorough or rng.integers(0, 10) else 300)
        # the container the points arrive in ("array_like"): float ndarray (what HighestDensityContour passes), Python
        # list / tuple, integer ndarray (coordinates on an integer lattice), list for x and ndarray for y
        x_as = str(rng.choice(["ndarray", "ndarray", "ndarray", "list", "tuple", "int-ndarray", "mixed"]))
        if x_as == "int-ndarray":
            sc = float(rng.choice([1, 10, 100]))
            xs, ys = [int(v) for v in np.round(np.asarray(x) * sc)], [int(v) for v in np.round(np.asarray(y) * sc)]
        else:
            xs, ys = [float(v) for v in x], [float(v) for v in y]
        yield {"part": "C", "kind": kind, "x": xs, "y": ys, "opt": opt, "x_as": x_as}


# -- real models for part B -----------------------------------------------------------------

def seastate_model():
    from virocon import DependenceFunction, GlobalHierarchicalModel, LogNormalDistribution, WeibullDistribution
    import models

    power3 = DependenceFunction(models._power3)
    power3.parameters = dict(zip(power3.parameters.keys(), [0.1000, 1.489, 0.1901]))
    exp3 = DependenceFunction(models._exp3)
    exp3.parameters = dict(zip(exp3.parameters.keys(), [0.0400, 0.1748, -0.2243]))
    return GlobalHierarchicalModel([
        {"distribution": WeibullDistribution(alpha=2.776, beta=1.471, gamma=0.8888)},
        {"distribution": LogNormalDistribution(), "conditional_on": 0, "parameters": {"mu": power3, "sigma": exp3}},
    ])


def mixture_model(desc):
    """independent dimensions, each an equal-weight mixture of virocon NormalDistributions (multi-modal
    when the means differ): several disconnected regions from a real HDC"""
    import doubles
    from virocon import NormalDistribution

    class MixDist(doubles.Distribution):
        def __init__(self, comps):
            self.comps = [NormalDistribution(mu=mu, sigma=sigma) for sigma, mu in comps]

        @property
        def parameters(self):
            return {}

        def cdf(self, x, *a, **k):
            return sum(c.cdf(x) for c in self.comps) / len(self.comps)

        def pdf(self, x, *a, **k):
            return sum(c.pdf(x) for c in self.comps) / len(self.comps)

        def icdf(self, p, *a, **k):
            raise NotImplementedError()

        def draw_sample(self, n, *a, **k):
            raise NotImplementedError()

        def _fit_mle(self, data):
            raise NotImplementedError()

        def _fit_lsq(self, data, weights):
            raise NotImplementedError()

    return doubles.GlobalHierarchicalModel([{"distribution": MixDist(c)} for c in desc])


def gen_hdc_cases(rng, n, thorough):
    import doubles
    import models

    for k in range(n):
        n_dim = 2 if rng.integers(0, 3) else 3
        r = int(rng.integers(0, 6))
        mode = "doubles" if r < 1 else ("table" if r < 4 else "mixture")
        alpha = float(10 ** rng.uniform(-6, math.log10(0.3)))
        cells = int(rng.integers(8, (60 if not thorough else 140) if n_dim == 2 else (16 if not thorough else 40)))
        ratio = [1.0] * n_dim
        if rng.integers(0, 4):
            for d in range(n_dim):
                ratio[d] = float(rng.choice([1, 2, 5, 10]))
        if mode == "mixture":
            desc = []
            for d in range(n_dim):
                nc = int(rng.integers(1, 4)) if d == 0 else int(rng.integers(1, 3))
                desc.append([[float(rng.uniform(0.2, 0.6)), float(rng.choice([2.0, 4.5, 7.0, 9.5]))] for _ in range(nc)])
            limits = [[0.0, float(rng.uniform(11.5, 14))] for _ in range(n_dim)]
            alpha = float(rng.uniform(0.05, 0.3))
            mdesc = desc
        else:
            m = models.random_fam_model(rng, n_dim=n_dim) if mode == "table" else doubles.random_model(rng, n_dim=n_dim)
            n_s = int(min(2e5, max(2e4, 40 * n_dim / alpha)))
            with np.errstate(all="ignore"):
                smp = m.build().draw_sample(n_s, random_state=int(rng.integers(0, 2**31)))
            limits = []
            for i in range(n_dim):
                col = smp[:, i][np.isfinite(smp[:, i])]
                q = float(np.quantile(col, 1 - min(0.5, alpha / (4 * n_dim)))) if len(col) else 10.0
                if mode == "doubles":  # heavy tails: keep the bulk resolved by the grid
                    q = float(np.quantile(col, 1 - max(alpha, 0.02) / 2))
                limits.append([float(rng.choice([0.0, 0.0, 0.1])), max(q * float(rng.uniform(0.7, 1.6)), 0.5)])
            mdesc = m.describe()
        # physical cell sizes delta_d = b * ratio_d; larger ratios go to the longer axes; b such that no axis has
        # more than `cap` cells; axes that would get fewer than 4 cells are extended
        cap = min(cells, (60 if not thorough else 200) if n_dim == 2 else (20 if not thorough else 50))
        rng_d = [l[1] - l[0] for l in limits]
        order = np.argsort(rng_d)
        rs = sorted(ratio)
        ratio = [0.0] * n_dim
        for pos, d in enumerate(order):
            ratio[int(d)] = rs[pos]
        b = max(R / (cap * r) for R, r in zip(rng_d, ratio)) * float(rng.uniform(1.0, 1.3))
        deltas = [b * r for r in ratio]
        limits = [[l[0], max(l[1], l[0] + 4 * d)] for l, d in zip(limits, deltas)]
        case = {"part": "B", "mode": mode, "alpha": alpha, "model": mdesc, "limits": limits, "deltas": deltas,
                "ratio": ratio, "limits_form": str(rng.choice(["tuples", "tuples", "lists", "reversed"]))}
        if len(set(deltas)) == 1 and rng.integers(0, 2):
            case["deltas"] = deltas[0]  # "float or list of float": a scalar applies to every axis
        yield case


def gen_default_cases(rng, n):
    import doubles

    cls = hdc_classes()
    for _ in range(n):
        m = doubles.random_model(rng, n_dim=2)
        alpha = float(10 ** rng.uniform(-1.2, -0.55))
        with warnings.catch_warnings():
            warnings.simplefilter("ignore")
            try:
                c = cls["HDC"](m.build(), alpha)
            except Exception:  # noqa: BLE001
                continue
        # default limits/deltas (0.25 % of the range, 400 cells per axis), coarsened 8x to stay in budget
        yield {"part": "B", "mode": "doubles", "alpha": alpha, "model": m.describe(), "gen": "default-limits",
               "limits": [[float(a), float(b)] for a, b in c.limits], "deltas": [float(d) * 8 for d in c.deltas]}


def limits_arg(case):
    """the `limits=` argument in the form the case asks for: list of (min, max) tuples (default), of [min, max]
    lists, or of (max, min) tuples (the code takes min()/max() of each entry)"""
    form = case.get("limits_form", "tuples")
    if form == "lists":
        return [list(l) for l in case["limits"]]
    if form == "reversed":
        return [(l[1], l[0]) for l in case["limits"]]
    return [tuple(l) for l in case["limits"]]


def deltas_of(case, n_dim, impl=None):
    """the cell sizes of a case as a list (a scalar applies to every axis; None: the object's defaults)"""
    d = case.get("deltas")
    if d is None:
        return [float(v) for v in np.atleast_1d(impl["deltas"])] if impl is not None else None
    if np.isscalar(d):
        return [float(d)] * n_dim
    return [float(v) for v in d]


def gen_default_path_cases(rng, n):
    """the `limits=None` / `deltas=None` branches themselves: the oracle runs on the object the defaults produce (its
    own grid: 401 cells per axis with default deltas); coarse alpha keeps the contour short"""
    import doubles
    import models

    for k in range(n):
        mode = "doubles" if k % 2 == 0 else "table"
        m = doubles.random_model(rng, n_dim=2) if mode == "doubles" else models.random_fam_model(rng, n_dim=2)
        case = {"part": "B", "mode": mode, "alpha": float(10 ** rng.uniform(-1.2, -0.55)), "model": m.describe(),
                "gen": "default-path", "limits": None, "deltas": None, "mc_seed": int(rng.integers(0, 2**31))}
        which = k % 3
        if which == 1:
            # default limits, explicit (scalar or list) deltas: cell size from a pre-run of the defaults, coarsened
            with warnings.catch_warnings():
                warnings.simplefilter("ignore")
                try:
                    with np.errstate(all="ignore"):
                        hi = [float(m.build().marginal_icdf(1 - 0.04 * case["alpha"], i, 0.05)) for i in range(2)]
                except Exception:  # noqa: BLE001
                    hi = [10.0, 10.0]
            d = [h / float(rng.integers(40, 90)) for h in hi]
            case["deltas"] = max(d) if rng.integers(0, 2) else d
        elif which == 2:
            # explicit limits with a non-zero lower end, default deltas (0.25 % of max - min)
            with warnings.catch_warnings():
                warnings.simplefilter("ignore")
                with np.errstate(all="ignore"):
                    smp = m.build().draw_sample(20000, random_state=int(rng.integers(0, 2**31)))
            lim = []
            for i in range(2):
                col = smp[:, i][np.isfinite(smp[:, i])]
                lim.append([float(rng.choice([0.1, 0.25])), max(float(np.quantile(col, 1 - case["alpha"] / 8)), 1.0)])
            case["limits"] = lim
            # (not "reversed": (max, min) entries are tolerated by _compute (min()/max()) but are outside the documented
            # form (min, max); with default deltas the range comes out negative and the grid empty - IndexError)
            case["limits_form"] = str(rng.choice(["tuples", "lists"]))
        yield case


def gen_unreachable_cases(rng, n):
    """limits that hold clearly less than 1 - alpha of the probability: the documented fall-back (RuntimeWarning, the
    whole grid as region) and the coordinates it returns"""
    import doubles
    import models

    for k in range(n):
        n_dim = 2 if k % 3 else 3
        mode = "doubles" if k % 2 == 0 else "table"
        m = doubles.random_model(rng, n_dim=n_dim) if mode == "doubles" else models.random_fam_model(rng, n_dim=n_dim)
        with warnings.catch_warnings():
            warnings.simplefilter("ignore")
            with np.errstate(all="ignore"):
                smp = m.build().draw_sample(20000, random_state=int(rng.integers(0, 2**31)))
        lim = []
        for i in range(n_dim):
            col = smp[:, i][np.isfinite(smp[:, i])]
            # the first axis stops at the 40 % quantile: at most 0.4 < 1 - alpha inside, whatever the other axes do
            q = float(np.quantile(col, 0.4 if i == 0 else 0.9))
            lim.append([0.0, max(q, 1e-3)])
        cells = int(rng.integers(4, 14 if n_dim == 2 else 7))
        deltas = [(l[1] - l[0]) / cells * float(rng.choice([1.0, 1.0, 2.0])) for l in lim]
        yield {"part": "B", "mode": mode, "alpha": float(rng.uniform(0.01, 0.3)), "model": m.describe(), "gen": "unreachable",
               "limits": lim, "deltas": deltas}


def build_model(case):
    import doubles
    import models

    if case["mode"] == "seastate":
        return seastate_model()
    if case["mode"] == "mixture":
        return mixture_model(case["model"])
    if case["mode"] == "doubles":
        return doubles.model_from_desc(case["model"]).build()
    return models.fam_model_from_desc(case["model"]).build()


# --------------------------------------------------------------------------- implementation runs

def run_hdc(case):
    """real contour; returns dict(coords, axes, region, rec) or dict(err)"""
    cls = hdc_classes()
    proxy = ndi_proxy()
    icdf_calls, warned = [], []
    try:
        with warnings.catch_warnings():
            warnings.simplefilter("ignore")
            with np.errstate(all="ignore"):
                if case["part"] == "A":
                    reg = np.array([ch == "1" for ch in case["bits"]], dtype=bool).reshape(case["shape"])
                    cls["Inject"].region = reg
                    c = cls["Inject"](DummyModel(len(case["shape"])), 0.1, limits=[tuple(l) for l in case["limits"]],
                                      deltas=list(case["deltas"]))
                    fallback = reg
                else:
                    cls["Rec"].rec = None
                    model = build_model(case)
                    kw = {}
                    if case.get("limits") is not None:
                        kw["limits"] = limits_arg(case)
                    if case.get("deltas") is not None:
                        kw["deltas"] = case["deltas"] if np.isscalar(case["deltas"]) else list(case["deltas"])
                    if case.get("mc_seed") is not None:
                        # default limits come from a Monte-Carlo marginal_icdf: fix its stream (replayable) and
                        # record how it was asked
                        orig_icdf, orig_draw = model.marginal_icdf, model.draw_sample

                        def seeded_draw(n, *a, random_state=None, **k2):
                            return orig_draw(n, *a, random_state=case["mc_seed"] if random_state is None else random_state, **k2)

                        def rec_icdf(p, dim, precision_factor=1, **k2):
                            v = orig_icdf(p, dim, precision_factor, **k2)
                            icdf_calls.append((float(p), int(dim), float(precision_factor), float(v)))
                            return v

                        model.draw_sample = seeded_draw
                        model.marginal_icdf = rec_icdf
                    with warnings.catch_warnings(record=True) as wlist:
                        warnings.simplefilter("always")
                        c = cls["Rec"](model, case["alpha"], **kw)
                    warned = [str(w.message) for w in wlist if issubclass(w.category, RuntimeWarning)
                              and "could not be reached" in str(w.message)]
                    fallback = cls["Rec"].rec
    except IndexError as e:
        # C02's known finding: the densest cell alone exceeds 1 - alpha, nothing is selected and
        # cumsum_biggest_until indexes an empty array. An IndexError from anywhere else is a failure of its own.
        import traceback

        frames = [f.name for f in traceback.extract_tb(e.__traceback__)]
        if "cumsum_biggest_until" in frames:
            return {"err": "emptySelection"}
        return {"err": "IndexError", "msg": f"IndexError in {frames[-1]}: {e}"}
    except ValueError as e:
        return {"err": "ValueError", "msg": str(e), "rec": dict(proxy.rec)}
    rec = dict(proxy.rec)
    axes = [np.array(a, dtype=float) for a in c.cell_center_coordinates]
    if "erosion_in" in rec:
        region = np.asarray(rec["erosion_in"]) != 0
    else:
        region = np.ones([len(a) for a in axes], dtype=bool) if fallback is None else fallback
    return {"coords": c.coordinates, "axes": axes, "region": region, "rec": rec, "limits": c.limits, "deltas": c.deltas,
            "icdf_calls": icdf_calls, "warned_not_reached": warned, "selection_recorded": fallback is not None}


def grid_correspondence(ck, case, impl, region):
    """the grid a real HighestDensityContour builds from its arguments, against the documented rule (reference
    model = the docstring: limits default to (0, marginal_icdf(1 - 0.2^n alpha, dim, precision_factor=0.05)), deltas to
    0.25 % of the range, a scalar delta applies to every axis, each limits entry is used as (min, max) whatever its
    order; cell centres = arange(min, max + delta, delta)); and the documented fall-back when 1 - alpha is not reached"""
    n_dim = region.ndim
    lim, dl, axes = impl["limits"], impl["deltas"], impl["axes"]
    d = None
    try:
        lim_f = [(float(min(l)), float(max(l))) for l in lim]
        dl_f = [float(v) for v in np.atleast_1d(dl)]
        if case.get("limits") is None:
            ck.count("B_grid:default-limits")
            want_p = 1 - 0.2 ** n_dim * case["alpha"]
            calls = impl["icdf_calls"]
            if [(c[0], c[1], c[2]) for c in calls] != [(want_p, i, 0.05) for i in range(n_dim)]:
                d = (f"default limits: marginal_icdf asked for {[(c[0], c[1], c[2]) for c in calls]}, documented "
                     f"{[(want_p, i, 0.05) for i in range(n_dim)]}")
            elif [(float(l[0]), f2b(l[1])) for l in lim] != [(0.0, f2b(c[3])) for c in calls]:
                d = f"default limits {lim} are not (0, marginal_icdf value) {[c[3] for c in calls]}"
        else:
            ck.count("B_grid:limits-form=" + case.get("limits_form", "tuples"))
            want = [(float(min(l)), float(max(l))) for l in case["limits"]]
            if lim_f != want:
                d = f"limits used {lim_f}, given {case['limits']} ({case.get('limits_form', 'tuples')})"
        if d is None:
            if case.get("deltas") is None:
                ck.count("B_grid:default-deltas")
                want_d = [(float(l[1]) - float(l[0])) * 0.0025 for l in lim]
                if len(dl_f) != n_dim or [f2b(v) for v in dl_f] != [f2b(v) for v in want_d]:
                    d = f"default deltas {dl_f}, documented 0.25 % of the range of the limits {lim}: {want_d}"
            else:
                ck.count("B_grid:deltas=" + ("scalar" if np.isscalar(case["deltas"]) else "list"))
                if [f2b(v) for v in dl_f] != [f2b(v) for v in deltas_of(case, n_dim)]:
                    d = f"deltas used {dl_f}, given {case['deltas']}"
        if d is None:
            for i in range(n_dim):
                want_ax = np.arange(lim_f[i][0], lim_f[i][1] + dl_f[i], dl_f[i])
                if len(want_ax) != len(axes[i]) or not np.array_equal(want_ax, axes[i]):
                    d = (f"axis {i}: {len(axes[i])} cell centres [{axes[i][0] if len(axes[i]) else None} ..], expected "
                         f"arange({lim_f[i][0]}, {lim_f[i][1]} + {dl_f[i]}, {dl_f[i]}) = {len(want_ax)} centres")
                    break
    except Exception as e:  # noqa: BLE001
        d = f"grid attributes unreadable: {type(e).__name__}: {e}"
    if d is None and case.get("gen") == "unreachable":
        # limits that hold less than 1 - alpha: documented fall-back = warning + the whole grid as region
        ck.count("B_grid:limits-cannot-reach-1-alpha")
        if not impl["warned_not_reached"]:
            d = "limits hold less than 1 - alpha of the probability, but no RuntimeWarning 'could not be reached' was issued"
        elif not region.all():
            d = f"fall-back after the warning: region has {int(region.sum())} of {region.size} cells, documented: all"
        else:
            ck.count("B_grid:fallback-region-is-whole-grid")
    elif impl["warned_not_reached"]:
        ck.count("B_grid:fallback-by-chance")
    if d is not None:
        ck.diverge("hdc-grid-from-arguments", case, d)


def boundary_by_definition(region):
    """region cells with at least one of the 3^n-1 neighbours outside the region or the grid"""
    nd = region.ndim
    pad = np.pad(region, 1, constant_values=False)
    allin = np.ones(region.shape, dtype=bool)
    for off in itertools.product((-1, 0, 1), repeat=nd):
        if not any(off):
            continue
        sl = tuple(slice(1 + o, 1 + o + s) for o, s in zip(off, region.shape))
        allin &= pad[sl]
    return region & ~allin


def rows_of(coords_entry, n_dim):
    """one coordinate set as list of rows (tuples of bit patterns)"""
    if isinstance(coords_entry, np.ndarray) and coords_entry.ndim == 2:
        if coords_entry.shape[1] != n_dim:
            return None
        return [tuple(f2b(v) for v in row) for row in coords_entry]
    cols = [np.asarray(c, dtype=float).ravel() for c in coords_entry]
    if len(cols) != n_dim or len({len(c) for c in cols}) != 1:
        return None
    return [tuple(f2b(v) for v in row) for row in zip(*cols)]


def coordinate_sets(coords, n_dim):
    """`.coordinates` as list of sets of rows: ndarray (N, n_dim) = one set; list = one entry per region"""
    if isinstance(coords, np.ndarray):
        if coords.size == 0:
            return []
        return [rows_of(coords, n_dim)]
    return [rows_of(e, n_dim) for e in coords]


def canonical_partition(labels):
    """labels of the non-zero cells (C order) renumbered by first occurrence"""
    m, out = {}, []
    for v in labels:
        if v not in m:
            m[v] = len(m) + 1
        out.append(m[v])
    return out


def knn_lists(x, y):
    from sklearn.neighbors import NearestNeighbors

    pts = np.c_[x, y]
    if len(pts) < 3:
        # no 2-nearest-neighbour graph exists; the sorter returns its input unchanged, which is what the
        # model yields on an adjacency without real edges (self loops), continuing at the nearest unvisited point
        return [i for i in range(len(pts)) for _ in range(2)]
    G = NearestNeighbors(n_neighbors=2).fit(pts).kneighbors_graph()
    ind, ptr = G.indices, G.indptr
    if not all(ptr[i + 1] - ptr[i] == 2 for i in range(len(x))):
        return None
    return [int(v) for v in ind]


def exact_cost(x, y, order):
    c = Fraction(0)
    for a, b in zip(order[:-1], order[1:]):
        dx, dy = Fraction(x[a]) - Fraction(x[b]), Fraction(y[a]) - Fraction(y[b])
        c += dx * dx + dy * dy
    return c


def sorter_line(x, y, knn, opt, start=0):
    return " ".join(["RUN", "c15sorter", "1" if opt else "0", str(start)] + fl(x) + fl(y) + il(knn))


def parse_sorter(ans):
    t = ans.split()
    if t[0] != "OK":
        return {"err": " ".join(t[1:])}
    k = int(t[3])
    return {"closed": t[1] == "1", "start": int(t[2]), "order": [int(v) for v in t[4:4 + k]]}


def sorter_phase1(ck, case, x, y, opt, out, tag, given_start=False, knn_xy=None):
    """oracle for one call of the real sorter (`out` = (xx, yy) it returned); returns the context for the
    model comparison (or None)"""
    x, y = np.asarray(x, dtype=float), np.asarray(y, dtype=float)
    n = len(x)
    xx, yy = np.asarray(out[0], dtype=float), np.asarray(out[1], dtype=float)
    inp = Counter((f2b(a), f2b(b)) for a, b in zip(x, y))
    got = Counter((f2b(a), f2b(b)) for a, b in zip(xx, yy))
    # (the k-NN leaf is evaluated on the points as the code sees them: sklearn breaks distance ties differently for
    # integer and float input)
    knn = knn_lists(*(knn_xy if knn_xy is not None else (x, y)))
    comp = n_components(n, knn) if knn else 0
    bad = None
    if inp != got:
        lost = sum((inp - got).values())
        extra = sum((got - inp).values())
        bad = f"{n} points in, {len(xx)} out: {lost} lost, {extra} duplicated/foreign; 2-NN graph has {comp} components"
        sig = {"entry": ENTRY_SORT, "predicate": "output_is_permutation_of_input",
               "where": "2-NN graph disconnected" if comp > 1 else "2-NN graph connected"}
        if tag:
            sig["via"] = tag
        ck.fail(sig, case, bad)
    if n == 0:
        ck.count("sorter_empty_point_set(permutation clause only; the model has no start node)")
        return None
    if knn is None:
        ck.count("C_knn_rows_not_2")
        return None
    ck.count("sorter_graph=" + ("disconnected" if comp > 1 else "connected"))
    impl_seq = [(f2b(a), f2b(b)) for a, b in zip(xx, yy)]
    start = 0
    if given_start:
        # contour too long for the model's O(n^2) search of the optimal start: the model runs from the start the
        # implementation chose (pairwise different points: the index is unique), the ORDER is compared
        opt = False
        cands = [i for i in range(n) if impl_seq and (f2b(x[i]), f2b(y[i])) == impl_seq[0]]
        if len(cands) != 1:
            return None
        start = cands[0]
    return {"case": case, "x": x, "y": y, "opt": opt, "knn": knn, "bad": bad,
            "impl_seq": impl_seq, "line": sorter_line(x, y, knn, opt, start)}


def sorter_phase2(ck, ctx, answer):
    case, x, y, opt, knn, bad, impl_seq = (ctx[k] for k in ("case", "x", "y", "opt", "knn", "bad", "impl_seq"))
    n = len(x)
    ans = parse_sorter(answer)
    if "err" in ans:
        ck.diverge("sorter", case, f"model error {ans['err']}")
        return
    ck.hyp_checked += 1
    if not ans["closed"]:
        ck.diverge("sorter-knn-hypothesis", case, "k-NN lists leave 0..n-1")
        return
    mod_seq = [(f2b(x[j]), f2b(y[j])) for j in ans["order"]]
    if impl_seq == mod_seq:
        return
    if opt and len(impl_seq) > 0:
        cands = [i for i in range(n) if (f2b(x[i]), f2b(y[i])) == impl_seq[0]]
        res = ck.driver.run([sorter_line(x, y, knn, False, i) for i in cands])
        for i, a in zip(cands, res):
            a = parse_sorter(a)
            if "err" not in a and [(f2b(x[j]), f2b(y[j])) for j in a["order"]] == impl_seq:
                ci, cm = exact_cost(x, y, a["order"]), exact_cost(x, y, ans["order"])
                if abs(ci - cm) <= Fraction(1, 10**9) * max(Fraction(1), abs(cm)):
                    ck.count("sorter_start_tie_accepted")
                    return
                if bad is None:
                    ck.diverge("sorter-optimal-start", case,
                               f"impl starts at node {i} (exact cost {float(ci)!r}), model at {ans['start']} ({float(cm)!r})")
                return
    if bad is None:
        k = next((i for i in range(min(len(impl_seq), len(mod_seq))) if impl_seq[i] != mod_seq[i]), None)
        ck.diverge("sorter-order", case, f"orders differ at position {k}: impl {len(impl_seq)} points, model {len(mod_seq)}")


def run_sorter_batch(ck, ctxs):
    ctxs = [c for c in ctxs if c is not None]
    if not ctxs:
        return
    for ctx, a in zip(ctxs, ck.driver.run([c["line"] for c in ctxs])):
        sorter_phase2(ck, ctx, a)


def n_components(n, knn):
    parent = list(range(n))

    def find(a):
        while parent[a] != a:
            parent[a] = parent[parent[a]]
            a = parent[a]
        return a

    for i in range(n):
        for v in knn[2 * i:2 * i + 2]:
            parent[find(i)] = find(v)
    return len({find(i) for i in range(n)})


# --------------------------------------------------------------------------- part A / B

def boundary_line(shape, region, axes=None):
    toks = ["RUN", "c15boundary", str(len(shape))] + [str(s) for s in shape]
    toks.append("".join("1" if v else "0" for v in np.asarray(region).ravel()))
    if axes is None:
        toks.append("0")
    else:
        toks.append("1")
        for a in axes:
            toks += fl(a)
    return " ".join(toks)


def parse_boundary(ans, n_dim, with_axes):
    t = ans.split()
    if t[0] != "OK":
        return {"err": " ".join(t[1:])}
    out = {"mask": t[1], "m": int(t[2])}
    p = 3
    if with_axes:
        sets = []
        for _ in range(out["m"]):
            k = int(t[p])
            vals = [int(v) for v in t[p + 1:p + 1 + k * n_dim]]
            sets.append([tuple(vals[i * n_dim:(i + 1) * n_dim]) for i in range(k)])
            p += 1 + k * n_dim
        out["sets"] = sets
    else:
        k = int(t[p])
        out["labels"] = [int(v) for v in t[p + 1:p + 1 + k]]
    return out


def hdc_phase1(ck, case):
    """runs the real contour, evaluates the oracle; returns the context for the model comparison"""
    impl = run_hdc(case)
    part = case["part"]
    ck.count("part=" + part)
    if "err" in impl:
        ck.case(case, nontrivial=False, sample=False)
        ck.count(f"{part}_impl_error=" + impl["err"])
        if impl["err"] == "ValueError" and "n_neighbors" in impl.get("msg", ""):
            # a single 2-D component of fewer than 3 boundary cells cannot be sorted (sklearn refuses): outside
            # the property's scope (alpha <= 0.3 on a grid that resolves the region); counted
            rec = impl.get("rec", {})
            nb = int(np.count_nonzero(rec.get("label_in", np.zeros(1))))
            # the point sorter must return a permutation of ANY planar point set, also of 1 or 2 boundary cells
            ck.fail({"entry": ENTRY_HDC, "predicate": "coordinates_returned"}, case, f"ValueError with {nb} boundary cells: {impl['msg']}")
            return
        if impl["err"] == "ValueError" and "nan" in impl.get("msg", ""):
            return
        if impl["err"] == "emptySelection":
            return  # C02's known finding (densest cell > 1-alpha), not about coordinates
        if case.get("limits_form") == "reversed":
            # (max, min) entries are outside the documented form: that the code orders them is part of the grid
            # correspondence, not a clause of the property
            ck.diverge("hdc-grid-from-arguments", case, f"limits given as (max, min): {impl.get('msg', impl['err'])}; "
                                                        f"the code as modelled takes min()/max() of each entry")
            return
        ck.fail({"entry": ENTRY_HDC, "predicate": "coordinates_returned"}, case, impl.get("msg", impl["err"]))
        return
    region, axes, rec = impl["region"], impl["axes"], impl["rec"]
    n_dim = region.ndim
    shape = list(region.shape)
    bnd = boundary_by_definition(region)
    n_b = int(bnd.sum())
    anis = len({round(float(d), 12) for d in deltas_of(case, n_dim, impl)}) > 1
    ck.case({k: v for k, v in case.items()}, nontrivial=n_b >= 3 and 0 < int(region.sum()), sample=ck.evaluations < 3)
    ck.count(f"{part}_n_dim={n_dim}")
    ck.count(f"{part}_deltas=" + ("anisotropic" if anis else "isotropic"))
    if part == "A":
        ck.count("A_kind=" + case["kind"])
    else:
        ck.count("B_mode=" + case["mode"])
    if any(np.take(region, [0, -1], axis=d).any() for d in range(n_dim)):
        ck.count(f"{part}_region_touches_grid_border")
    sets = coordinate_sets(impl["coords"], n_dim)
    ck.count(f"{part}_n_sets=" + (str(len(sets)) if len(sets) < 3 else "3+"))
    if part == "B":
        grid_correspondence(ck, case, impl, region)
    # ---- oracle on the returned coordinates ---------------------------------------------
    bad = []
    centres = Counter(tuple(f2b(axes[d][i[d]]) for d in range(n_dim)) for i in zip(*np.nonzero(bnd)))
    if any(s is None for s in sets):
        bad.append(("coordinate_sets_well_formed", "a coordinate set is not (N, n_dim)"))
        got = Counter()
    else:
        got = Counter(r for s in sets for r in s)
    if not bad and got != centres:
        missing, extra = sum((centres - got).values()), sum((got - centres).values())
        bad.append(("coordinates_are_boundary_cell_centres_each_once",
                    f"{n_b} boundary cells, {sum(got.values())} coordinates: {missing} centres missing, {extra} not a boundary centre or repeated"))
    # one set per boundary component (components of the boundary mask under full connectivity, counted
    # independently by union-find)
    comp_of = boundary_components(bnd)
    n_comp = len(set(comp_of.values()))
    if not bad:
        if len(sets) != n_comp:
            bad.append(("one_coordinate_set_per_region", f"{n_comp} boundary components, {len(sets)} coordinate sets"))
        else:
            inv = {tuple(f2b(axes[d][i[d]]) for d in range(n_dim)): c for i, c in comp_of.items()}
            for s in sets:
                if len({inv[r] for r in s}) != 1:
                    bad.append(("one_coordinate_set_per_region", "a coordinate set mixes two components"))
                    break
    # a region with a hole (or a cavity) is ONE connected region with SEVERAL boundary components: the code returns one
    # set per boundary component, which is the reading checked above (see ck.partial "regions with holes")
    n_reg = len(set(boundary_components(region).values())) if int(region.sum()) <= 6000 else None
    if n_reg is not None and n_comp > n_reg:
        ck.count(f"{part}_region_with_hole(more boundary components than regions; one set per boundary component)")
        if n_reg == 1:
            ck.count(f"{part}_region_with_hole:single-connected-region-returned-as-{'list-of-sets' if len(sets) > 1 else 'one-array'}")
    for pred, detail in bad:
        sig = {"entry": ENTRY_HDC, "predicate": pred}
        if pred == "coordinates_are_boundary_cell_centres_each_once" and len(sets) == 1 and n_dim == 2:
            # single 2-D contour: coordinates pass through the sorter; say whether its 2-NN graph is connected
            # (points in the order _compute hands them over: C order of the boundary cells)
            cells_c = list(zip(*np.nonzero(bnd)))
            xs = np.array([axes[0][i[0]] for i in cells_c], dtype=float)
            ys = np.array([axes[1][i[1]] for i in cells_c], dtype=float)
            knn0 = knn_lists(xs, ys) if len(cells_c) >= 3 else None
            sig["where"] = "2-NN graph disconnected" if knn0 and n_components(len(xs), knn0) > 1 else "2-NN graph connected"
        ck.fail(sig, case, detail)
    # ---- hypotheses about the ndimage leaves, on what _compute actually got ----------------
    have_rec = "label_out" in rec and "label_in" in rec
    if have_rec:
        lab, lin, m_impl = rec["label_out"], rec["label_in"] != 0, rec["n_modes"]
        ck.hyp_checked += 1
        ok = np.array_equal(lab > 0, lin) and (lab.max(initial=0) <= m_impl) and \
            set(np.unique(lab[lab > 0]).tolist()) == set(range(1, m_impl + 1))
        if not ok:
            ck.diverge("ndimage.label-is-a-labelling", case, "label array is not a function onto 1..m on the mask")
    else:
        ck.count(f"{part}_no_ndimage_record")
    # the model's gather is O(components x cells): for very large grids with very many components only mask and
    # labels are compared
    with_axes = int(np.prod(shape)) * max(1, rec.get("n_modes", n_comp)) <= 2e7
    if not with_axes:
        ck.count(f"{part}_gather_rows_skipped_large")
    return {"case": case, "impl": impl, "bnd": bnd, "sets": sets, "bad": bad, "have_rec": have_rec,
            "with_axes": with_axes, "line": boundary_line(shape, region, axes if with_axes else None)}


def hdc_phase2(ck, ctx, answer):
    """correspondence with the model; returns a sorter context when the contour went through the sorter"""
    case, impl, bnd, sets, bad, have_rec = (ctx[k] for k in ("case", "impl", "bnd", "sets", "bad", "have_rec"))
    region, axes, rec = impl["region"], impl["axes"], impl["rec"]
    n_dim, part = region.ndim, case["part"]
    with_axes = ctx["with_axes"]
    ans = parse_boundary(answer, n_dim, with_axes)
    if "err" in ans:
        ck.diverge("boundary-model", case, "model error " + ans["err"])
        return None
    d = None
    mask_def = "".join("1" if v else "0" for v in bnd.ravel())
    if ans["mask"] != mask_def:
        d = "model boundary mask differs from the definition (harness oracle)"
    if d is None and have_rec:
        lab, lin, m_impl = rec["label_out"], rec["label_in"] != 0, rec["n_modes"]
        imask = "".join("1" if v else "0" for v in lin.ravel())
        if imask != ans["mask"]:
            k = next(i for i in range(len(imask)) if imask[i] != ans["mask"][i])
            d = (f"boundary mask handed to ndimage.label differs from the model at flat cell {k} "
                 f"(impl {imask.count('1')} cells, model {ans['mask'].count('1')})")
        elif m_impl != ans["m"]:
            d = f"number of components impl={m_impl} model={ans['m']}"
        else:
            ilabels = [int(v) for v in lab.ravel()[lin.ravel()]]
            mlabels = label_list_from_sets(ans, axes, bnd) if with_axes else ans["labels"]
            if canonical_partition(ilabels) != canonical_partition(mlabels):
                d = "component partition differs"
            elif ilabels != mlabels:
                d = "component numbering differs (same partition)"
    if not with_axes:
        if d is not None and not bad:
            ck.diverge("hdc-boundary-gather", case, d)
        return None
    if d is None and not bad:
        msets = ans["sets"]
        if len(sets) == 1 and n_dim == 2:
            # single 2-D contour: as multiset here, order through the sorter correspondence
            if len(msets) != 1 or Counter(msets[0]) != Counter(sets[0]):
                d = "single 2-D contour: coordinate multiset differs from the model's gathered rows"
        else:
            if len(msets) != len(sets):
                d = f"{len(sets)} coordinate sets, model {len(msets)}"
            else:
                for k, (a, b) in enumerate(zip(sets, msets)):
                    if list(a) != list(b):
                        d = f"coordinate set {k} differs from the model's rows (C order)"
                        break
    if d is not None and not bad:
        ck.diverge("hdc-boundary-gather", case, d)
    # ---- single 2-D contour: the order is the sorter's ---------------------------------------
    if len(sets) == 1 and n_dim == 2 and ans["m"] == 1 and len(ans["sets"][0]) >= 3 and not bad:
        rows = ans["sets"][0]
        x = np.array([r[0] for r in rows], dtype=np.uint64).view(np.float64)
        y = np.array([r[1] for r in rows], dtype=np.uint64).view(np.float64)
        cap = 320 if ck.tier == "quick" else 450
        if len(x) <= cap:
            out = np.asarray(impl["coords"], dtype=float)
            ck.count(f"{part}_sorted_order_compared")
            return sorter_phase1(ck, case, x, y, True, (out[:, 0], out[:, 1]), "HighestDensityContour")
        ck.count(f"{part}_sorted_order_too_large_for_model")
        if len(x) <= (1500 if ck.tier == "quick" else 4000):
            out = np.asarray(impl["coords"], dtype=float)
            ck.count(f"{part}_sorted_order_compared_from_the_start_the_code_chose")
            return sorter_phase1(ck, case, x, y, True, (out[:, 0], out[:, 1]), "HighestDensityContour", given_start=True)
    return None


def run_hdc_batch(ck, cases, chunk=40):
    cases = list(cases)
    for i in range(0, len(cases), chunk):
        ctxs = [c for c in (hdc_phase1(ck, case) for case in cases[i:i + chunk]) if c is not None]
        if not ctxs:
            continue
        answers = ck.driver.run([c["line"] for c in ctxs])
        run_sorter_batch(ck, [hdc_phase2(ck, c, a) for c, a in zip(ctxs, answers)])


def boundary_components(bnd):
    """{index tuple: component id} of the boundary cells, full connectivity, union-find (independent of
    scipy and of the model)"""
    idx = [tuple(int(v) for v in i) for i in zip(*np.nonzero(bnd))]
    pos = {i: k for k, i in enumerate(idx)}
    parent = list(range(len(idx)))

    def find(a):
        while parent[a] != a:
            parent[a] = parent[parent[a]]
            a = parent[a]
        return a

    offs = [o for o in itertools.product((-1, 0, 1), repeat=bnd.ndim) if any(o)]
    for i in idx:
        for o in offs:
            j = tuple(a + b for a, b in zip(i, o))
            if j in pos:
                parent[find(pos[i])] = find(pos[j])
    return {i: find(pos[i]) for i in idx}


def label_list_from_sets(ans, axes, bnd):
    """labels of the boundary cells in C order according to the model's gathered sets"""
    n_dim = bnd.ndim
    lab_of = {}
    for k, s in enumerate(ans["sets"]):
        for r in s:
            lab_of[r] = k + 1
    return [lab_of.get(tuple(f2b(axes[d][i[d]]) for d in range(n_dim)), 0) for i in zip(*np.nonzero(bnd))]


def process_label_only(ck, rng, n):
    """labelComponents vs ndimage.label on arbitrary masks (not only boundary masks)"""
    import scipy.ndimage as ndi

    cases, lines = [], []
    for _ in range(n):
        nd = 2 if rng.integers(0, 2) else 3
        shape = [int(rng.integers(1, 40 if nd == 2 else 12)) for _ in range(nd)]
        _, reg = random_region(rng, shape)
        cases.append((shape, reg))
        lines.append(" ".join(["RUN", "c15label", str(nd)] + [str(s) for s in shape] + ["".join("1" if v else "0" for v in reg.ravel())]))
    for (shape, reg), a in zip(cases, ck.driver.run(lines)):
        case = {"part": "L", "shape": shape, "bits": "".join("1" if v else "0" for v in reg.ravel())}
        ck.case(case, nontrivial=bool(reg.any()), sample=False)
        ck.count("part=L")
        lab, m = ndi.label(reg, structure=np.ones((3,) * len(shape), dtype=bool))
        t = a.split()
        if t[0] != "OK":
            ck.diverge("label-model", case, a)
            continue
        k = int(t[2])
        if int(t[1]) != m or [int(v) for v in t[3:3 + k]] != [int(v) for v in lab.ravel()[reg.ravel()]]:
            ck.diverge("label-model", case, f"labelComponents differs from ndimage.label (m impl={m} model={t[1]})")


def sorter_case_phase1(ck, case):
    from virocon.utils import sort_points_to_form_continuous_line

    x, y = np.array(case["x"], dtype=float), np.array(case["y"], dtype=float)
    x_as = case.get("x_as", "ndarray")
    if x_as == "list":
        xa, ya = list(case["x"]), list(case["y"])
    elif x_as == "tuple":
        xa, ya = tuple(case["x"]), tuple(case["y"])
    elif x_as == "int-ndarray":
        xa, ya = np.array(case["x"], dtype=np.int64), np.array(case["y"], dtype=np.int64)
    elif x_as == "mixed":
        xa, ya = list(case["x"]), y.copy()
    else:
        xa, ya = x.copy(), y.copy()
    ck.count("part=C")
    ck.count("C_kind=" + case["kind"])
    ck.count("C_opt=" + str(case["opt"]))
    ck.count("C_points_passed_as=" + x_as)
    ck.count("C_n_points=" + ("0" if len(x) == 0 else "1-2" if len(x) < 3 else "3+"))
    ck.case(case, nontrivial=len(x) >= 4 and len(set(zip(case["x"], case["y"]))) >= 3, sample=ck.dist.get("part=C", 0) <= 2)
    try:
        with warnings.catch_warnings():
            warnings.simplefilter("ignore")
            out = sort_points_to_form_continuous_line(xa, ya, search_for_optimal_start=case["opt"])
        out = (np.asarray(out[0], dtype=float), np.asarray(out[1], dtype=float))
        if out[0].ndim != 1 or out[1].ndim != 1:
            raise ValueError(f"returned coordinates of shape {out[0].shape} / {out[1].shape}")
    except Exception as e:  # noqa: BLE001
        sig = {"entry": ENTRY_SORT, "predicate": "returns"}
        if x_as != "ndarray":
            sig["where"] = "points passed as " + x_as
        ck.fail(sig, case, f"{type(e).__name__}: {e}")
        return None
    return sorter_phase1(ck, case, x, y, case["opt"], out, "", knn_xy=(xa, ya))


def run_sorter_cases(ck, cases, chunk=100):
    cases = list(cases)
    for i in range(0, len(cases), chunk):
        run_sorter_batch(ck, [sorter_case_phase1(ck, c) for c in cases[i:i + chunk]])


def dispatch(ck, case):
    if case["part"] in ("A", "B"):
        run_hdc_batch(ck, [case])
    else:
        run_sorter_cases(ck, [case])


def main(ck):
    rng = np.random.default_rng(ck.seed)
    thorough = ck.tier == "thorough"
    ck.rule = ("corpus witnesses; (A) random regions (blob, blobs, ring, border-touching, noise, smooth field, full, "
               "empty, single cell; 2-D up to 60^2 (thorough 400^2), 3-D up to 20^3 (thorough 60^3); isotropic and "
               "anisotropic deltas, ratios 2/5/10) injected into a real HighestDensityContour; (B) real contours on "
               "random hierarchical models (rational doubles, shipped families, bimodal mixture doubles), alpha in "
               "[1e-6,0.3], explicit limits (tuples, lists, (max, min)) and deltas (list, scalar), the default limits "
               "and/or default deltas themselves (oracle on the object's own 401-cell grid), limits that cannot reach "
               "1-alpha (fall-back region); (C) sorter on circle/ellipse/lattice/irregular/noisy/"
               "clustered/random/duplicated point sets of 0-400 points passed as float ndarray / list / tuple / integer "
               "ndarray / mixed, with and without optimal-start search; (L) "
               "labelling of arbitrary masks. Non-trivial: region non-empty with >= 3 boundary cells / >= 4 points "
               "with >= 3 distinct; distinct by SHA1 of the case")
    ck.assumptions = [
        "scipy.ndimage.label is a labelling (label > 0 iff mask, labels onto 1..m): checked on every label array _compute produced",
        "sklearn k-NN lists are passed to the model (leaf); they stay inside 0..n-1: evaluated by the driver (closedB)",
        "'one coordinate set per region' is read as one set per connected component (3^n connectivity) of the boundary mask, which is what the anchors name; a region with a hole has two boundary components",
        "a 2-D boundary component of 1 or 2 cells is returned unsorted (nothing to sort); before the repair the sorter raised ValueError there",
    ]
    ck.partial = {
        "regions with holes": "the statement's 'single connected 2-D region -> one (N,2) array in sorter order; several "
        "disconnected regions -> one coordinate set per region' is checked with 'region' read as CONNECTED COMPONENT OF THE "
        "BOUNDARY MASK (3^n connectivity), which is what the anchors name and what _compute labels. Taken literally (region = "
        "connected component of the enclosed set of cells) the statement does NOT hold for a region with a hole: the unchanged "
        "code returns a ring-shaped region (one connected region) as a LIST of two unsorted coordinate sets, outer and inner "
        "contour (witness: corpus case ring-real-model, 4-mode mixture, alpha 0.1, deltas (0.25, 0.5); counter "
        "*_region_with_hole:single-connected-region-returned-as-list-of-sets). This is treated as an imprecision of the "
        "wording, not as a defect of virocon: two closed contours cannot be one continuous line. The boundary-cell clause "
        "(every boundary cell centre exactly once) is checked for such regions without any reading",
        "grid from the arguments": "default limits = (0, marginal_icdf(1 - 0.2^n alpha, dim, precision_factor=0.05)), default "
        "deltas = 0.25 % of the range, scalar deltas, limits entries as lists / (max, min), cell centres = arange(min, max + "
        "delta, delta), the fall-back region (whole grid + RuntimeWarning) when the limits hold less than 1 - alpha: compared per "
        "run with the documented rule in Python (correspondence 'hdc-grid-from-arguments'), no Lean model; the boundary-cell "
        "oracle itself runs on the object's own grid in all these cases",
        "order of long single contours": "contours above the cap (320 quick / 450 thorough points) are compared with the "
        "model's order FROM THE START THE CODE CHOSE (up to 1500 / 4000 points); that this start is the optimal one is "
        "compared only up to the cap",
        "ndimage.label / binary_erosion": "leaves; their outputs are compared with the model's boundary mask and components on every case",
        "NearestNeighbors": "leaf; k-NN lists enter the model as data",
        "optimal start": "numpy's pairwise summation vs the model's sequential sum: a different start is accepted only when the exact rational path costs tie within 1e-9",
    }
    import time

    walls = {}

    def timed(name, f):
        t = time.time()
        f()
        walls[name] = round(time.time() - t, 1)
        if os.environ.get("VERIF_PROGRESS"):
            print(f"[c15] part {name}: {walls[name]} s", flush=True)

    timed("corpus", lambda: [dispatch(ck, case) for case in corpus_cases()])
    timed("A", lambda: run_hdc_batch(ck, gen_region_cases(rng, 5000 if thorough else 400, thorough)))
    timed("B", lambda: run_hdc_batch(ck, gen_hdc_cases(rng, 800 if thorough else 60, thorough), chunk=10))
    timed("B-default", lambda: run_hdc_batch(ck, gen_default_cases(rng, 8 if thorough else 2), chunk=10))
    timed("B-default-path", lambda: run_hdc_batch(ck, gen_default_path_cases(rng, 36 if thorough else 6), chunk=3))
    timed("B-unreachable", lambda: run_hdc_batch(ck, gen_unreachable_cases(rng, 60 if thorough else 8), chunk=10))
    timed("C", lambda: run_sorter_cases(ck, gen_sorter_cases(rng, 4000 if thorough else 250, thorough)))
    timed("L", lambda: process_label_only(ck, rng, 2000 if thorough else 200))
    ck.extra["part_wall_s"] = walls


def replay(ck, payload):
    case = payload["case"]
    dispatch(ck, case)
    for s, c, d in ck.failures:
        print("oracle:", s, d)
    for k, (kf, c, d) in ck.known_seen.items():
        print("oracle (known finding):", k, d)
    for op, c, d in ck.divergences:
        print("correspondence:", op, d)
    return not ck.failures and not ck.known_seen
