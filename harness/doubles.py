"""
Exact-arithmetic test doubles (DESIGN 2.3a) and random hierarchical models.

RatDist is a subclass of virocon's Distribution whose cdf/icdf/pdf use only IEEE-basic
operations in a fixed order, mirrored by lean/VirVerif/Model/Doubles.lean.  Dependence
functions are rational callables wrapped in *real* virocon DependenceFunction objects; the
joint model is a *real* GlobalHierarchicalModel.  So everything above the leaves is virocon's
own code.
"""
import numpy as np

from core import f2b


def _import():
    from virocon.distributions import Distribution
    from virocon import DependenceFunction, GlobalHierarchicalModel

    return Distribution, DependenceFunction, GlobalHierarchicalModel


Distribution, DependenceFunction, GlobalHierarchicalModel = _import()


class RatDist(Distribution):
    """F(x) = z/(z+s), z = x-l (z>0); Q(p) = l + s*p/(1-p); f(x) = s/((z+s)*(z+s))"""

    def __init__(self, s=1.0, l=0.0, f_s=None, f_l=None):
        self.s = s if f_s is None else f_s
        self.l = l if f_l is None else f_l
        self.f_s = f_s
        self.f_l = f_l

    @property
    def parameters(self):
        return {"s": self.s, "l": self.l}

    def _par(self, s, l):
        return (self.s if s is None else s), (self.l if l is None else l)

    def cdf(self, x, s=None, l=None):
        s, l = self._par(s, l)
        x = np.asarray(x, dtype=float)
        z = x - l
        with np.errstate(divide="ignore", invalid="ignore"):
            return np.where(z > 0, z / (z + s), 0.0)

    def icdf(self, prob, s=None, l=None):
        s, l = self._par(s, l)
        prob = np.asarray(prob, dtype=float)
        return l + s * prob / (1 - prob)

    def pdf(self, x, s=None, l=None):
        s, l = self._par(s, l)
        x = np.asarray(x, dtype=float)
        z = x - l
        with np.errstate(divide="ignore", invalid="ignore"):
            return np.where(z > 0, s / ((z + s) * (z + s)), 0.0)

    def draw_sample(self, n, s=None, l=None, *, random_state=None):
        s, l = self._par(s, l)
        rng = np.random.default_rng(random_state)
        size = self._get_rvs_size(n, (s, l))
        u = rng.uniform(size=size)
        return l + s * u / (1 - u)

    def _fit_mle(self, data):
        raise NotImplementedError()

    def _fit_lsq(self, data, weights):
        raise NotImplementedError()


def _const(x, a):
    return a + 0 * x


def _affine(x, a, b):
    return a + b * x


def _asym(x, a, b, c):
    return a + b / (1 + c * x)


def _chained(x, a, b, d):
    return (a + b * x) / d(x)


def _ratio(x, a, num, den):
    return (a + num(x)) / den(x)


class Dep:
    """description of a dependence function: kind in {fixed, affine, asym, chained}"""

    def __init__(self, kind, pars, inner=None):
        self.kind, self.pars, self.inner = kind, [float(p) for p in pars], inner

    def tokens(self):
        if self.kind == "fixed":
            return ["c", str(f2b(self.pars[0]))]
        if self.kind == "affine":
            return ["a"] + [str(f2b(p)) for p in self.pars]
        if self.kind == "asym":
            return ["y"] + [str(f2b(p)) for p in self.pars]
        if self.kind == "ratio":
            return ["r", str(f2b(self.pars[0]))] + self.inner[0].tokens() + self.inner[1].tokens()
        return ["h"] + [str(f2b(p)) for p in self.pars] + self.inner.tokens()

    def build(self):
        """real DependenceFunction (None for a fixed parameter)"""
        if self.kind == "fixed":
            return None
        if self.kind == "affine":
            df = DependenceFunction(_affine)
        elif self.kind == "asym":
            df = DependenceFunction(_asym)
        elif self.kind == "ratio":
            # two different dependence functions as keyword parameters of one dependence function
            df = DependenceFunction(_ratio, num=self.inner[0].build(), den=self.inner[1].build())
        else:
            df = DependenceFunction(_chained, d=self.inner.build())
        df.parameters = dict(zip(df.parameters.keys(), self.pars))
        return df

    def value(self, g):
        """independent evaluation (plain Python floats)"""
        g = float(g)
        p = self.pars
        if self.kind == "fixed":
            return p[0]
        if self.kind == "affine":
            return p[0] + p[1] * g
        if self.kind == "asym":
            return p[0] + p[1] / (1 + p[2] * g)
        if self.kind == "ratio":
            return (p[0] + self.inner[0].value(g)) / self.inner[1].value(g)
        return (p[0] + p[1] * g) / self.inner.value(g)

    def describe(self):
        d = {"kind": self.kind, "pars": self.pars}
        if self.kind == "ratio":
            d["inner"] = [self.inner[0].describe(), self.inner[1].describe()]
        elif self.inner is not None:
            d["inner"] = self.inner.describe()
        return d


def dep_from_desc(d):
    if d["kind"] == "ratio":
        return Dep("ratio", d["pars"], [dep_from_desc(d["inner"][0]), dep_from_desc(d["inner"][1])])
    return Dep(d["kind"], d["pars"], dep_from_desc(d["inner"]) if "inner" in d else None)


def random_dep(rng, positive=True, allow_fixed=True):
    r = rng.integers(0, 5 if allow_fixed else 4)
    mag = float(10 ** rng.uniform(-0.7, 0.7))
    if rng.integers(0, 6) == 0:
        num = Dep("affine", [float(rng.uniform(0.2, 2)), float(rng.uniform(0.0, 0.6))])
        den = Dep("asym", [float(rng.uniform(0.5, 2)), float(rng.uniform(0.1, 1)), float(rng.uniform(0.1, 1))])
        return Dep("ratio", [mag], [num, den])
    if r == 4:
        return Dep("fixed", [mag])
    if r == 0:
        return Dep("affine", [mag, float(rng.uniform(0.0, 0.8))])
    if r == 1:
        return Dep("asym", [mag, float(rng.uniform(0.1, 2.0)), float(rng.uniform(0.05, 1.5))])
    if r == 2:
        inner = Dep("asym", [float(rng.uniform(0.5, 2)), float(rng.uniform(0.1, 1)), float(rng.uniform(0.1, 1))])
        return Dep("chained", [mag, float(rng.uniform(0.0, 0.5))], inner)
    return Dep("affine", [mag, float(rng.uniform(0.0, 0.3))])


class ModelDesc:
    """hierarchical model over RatDist leaves"""

    def __init__(self, cond, s_deps, l_deps):
        self.cond, self.s, self.l = cond, s_deps, l_deps
        self.n_dim = len(cond)

    def tokens(self):
        t = [str(self.n_dim)]
        for i in range(self.n_dim):
            t.append("-" if self.cond[i] is None else str(self.cond[i]))
            t.append("rat")
            t += self.s[i].tokens() + self.l[i].tokens()
        return t

    def build(self):
        descs = []
        for i in range(self.n_dim):
            if self.cond[i] is None:
                descs.append({"distribution": RatDist(s=self.s[i].pars[0], l=self.l[i].pars[0])})
            else:
                kw, pars = {}, {}
                for name, dep in (("s", self.s[i]), ("l", self.l[i])):
                    if dep.kind == "fixed":
                        kw["f_" + name] = dep.pars[0]
                    else:
                        pars[name] = dep.build()
                descs.append({"distribution": RatDist(**kw), "conditional_on": self.cond[i], "parameters": pars})
        return GlobalHierarchicalModel(descs)

    def describe(self):
        return {"cond": self.cond, "s": [d.describe() for d in self.s], "l": [d.describe() for d in self.l]}

    def n_dependent(self):
        return sum(1 for i in range(self.n_dim) if self.cond[i] is not None
                   for d in (self.s[i], self.l[i]) if d.kind != "fixed")


def model_from_desc(d):
    return ModelDesc(d["cond"], [dep_from_desc(x) for x in d["s"]], [dep_from_desc(x) for x in d["l"]])


def random_structure(rng, n_dim):
    cond = [None]
    for i in range(1, n_dim):
        cond.append(None if rng.integers(0, 4) == 0 else int(rng.integers(0, i)))
    return cond


def random_model(rng, n_dim=None, cond=None):
    if n_dim is None:
        n_dim = int(rng.choice([2, 2, 3, 3, 4]))
    if cond is None:
        cond = random_structure(rng, n_dim)
    s, l = [], []
    for i in range(n_dim):
        if cond[i] is None:
            s.append(Dep("fixed", [float(10 ** rng.uniform(-0.5, 0.8))]))
            l.append(Dep("fixed", [float(rng.choice([0.0, 0.0, 0.5, 1.0]))]))
        else:
            ds = random_dep(rng)
            dl = random_dep(rng) if rng.integers(0, 2) else Dep("fixed", [float(rng.choice([0.0, 0.25]))])
            if ds.kind == "fixed" and dl.kind == "fixed":
                ds = random_dep(rng, allow_fixed=False)
            s.append(ds)
            l.append(dl)
    return ModelDesc(cond, s, l)


def all_structures(n_dim):
    """every conditional_on list with conditional_on[i] < i (None allowed), first None"""
    out = [[None]]
    for i in range(1, n_dim):
        out = [c + [j] for c in out for j in [None] + list(range(i))]
    return out
