"""
C14 - dependence functions are fitted within bounds, optimally, in dependency order.

Part A (protocol).  Operation histories (declarations + public `fit` calls, one to three rounds with
DIFFERENT pairs per round, complete and partial rounds, random longer ones) are executed on real
`DependenceFunction` objects and on the Lean state machine (Model/DepProtocol.lean).  Recorders
(inside this process only; the real code still runs) wrap `DependenceFunction.fit` (public calls:
which x/y objects were handed over, in which round), `DependenceFunction._fit` and
`virocon.dependencies.fit_function` / `fit_constrained_function` (for every `_fit`: which function
object, which x/y OBJECTS reached the optimiser, which `p0`).  The x/y objects are mapped back to
the epoch of the public call that supplied them, `p0` to a token (0 = the parameter values the
constructor put in place, k = the result of the k-th fit of that function); the resulting detailed
event log (function, data epoch, start-value token, number of the public call) and the final
`_may_fit`, stored x/y (+ their epoch), `_fitted_conditioners`, version counters, versions each
`_fit` saw are compared exactly with the model.  Oracle on the real objects: every `_fit` received
the pairs of the latest public `fit` call on its function; every `_fit` started from the initial
parameter values; every fitted function's parameters are the exact least-squares fit of the pairs
of its latest public call given the *current* parameters of its conditioners; after every function
has been called every function is fitted and the parameters equal those of a fresh set of objects
fitted in dependency order to the same latest pairs (order independence, re-fit = fresh fit).
The same through `ConditionalDistribution.fit`.

Part B (numerics).  `convert_bounds_for_curve_fit` vs `convertBounds` (bit-exact); the dispatch
(which optimiser, start, sigma, bounds, constraints) vs `dispatch`, observed through recorders
around `virocon._fitting.curve_fit` / `minimize`; real fits of shapes linear in their parameters vs
an exact rational least-squares solution which the Lean driver certifies (normal equations at `Rat`,
theorem `isNormalSolution_sound`) and, for affine shapes, recomputes (`affineLsq`); in-bounds,
constraint satisfaction, residual <= residual(start) and <= residual(admissible perturbations)
are oracle clauses on the real code (optimiser quality is scipy's: observed, not proven).
"""
import glob
import itertools
import json
import os
import warnings
from fractions import Fraction

import numpy as np

import core
from core import f2b, fl, il

INF_BITS = f2b(float("inf"))

# ---------------------------------------------------------------------------
# exact rational least squares


def close_params(got, want, tol=1e-6):
    """parameter vectors agree within optimiser tolerance (relative to the size of the vector)"""
    got, want = np.asarray(got, dtype=float), np.asarray(want, dtype=float)
    return bool(np.all(np.abs(got - want) <= tol * (1.0 + np.max(np.abs(want)))))


def fr(v):
    return Fraction(float(v))


def exact_lsq(rows, y, w):
    """rows: m x n Fractions, y, w: m Fractions -> list of n Fractions or None (singular)"""
    n = len(rows[0])
    M = [[Fraction(0)] * (n + 1) for _ in range(n)]
    for r, yi, wi in zip(rows, y, w):
        for i in range(n):
            wr = wi * r[i]
            for j in range(n):
                M[i][j] += wr * r[j]
            M[i][n] += wr * yi
    for c in range(n):
        piv = next((r for r in range(c, n) if M[r][c] != 0), None)
        if piv is None:
            return None
        M[c], M[piv] = M[piv], M[c]
        pv = M[c][c]
        M[c] = [v / pv for v in M[c]]
        for r in range(n):
            if r != c and M[r][c] != 0:
                fct = M[r][c]
                M[r] = [a - fct * b for a, b in zip(M[r], M[c])]
    return [M[i][n] for i in range(n)]


def exact_sse(rows, y, w, p):
    return sum(wi * (sum(a * b for a, b in zip(r, p)) - yi) ** 2 for r, yi, wi in zip(rows, y, w))


def rat_tok(q):
    return f"{q.numerator}/{q.denominator}"


def tok_rat(s):
    a, b = s.split("/")
    return Fraction(int(a), int(b))


# ---------------------------------------------------------------------------
# Part A: protocol histories on real DependenceFunction objects


def _f0(x, a, b):
    return a + b * x


def _f1(x, a, b, c0):
    return a + b * c0(x)


def _f2(x, a, b, c0, c1):
    return a + b * (c0(x) + c1(x))


def _f3(x, a, b, c0, c1, c2):
    return a + b * (c0(x) + c1(x) + c2(x))


PFUNCS = [_f0, _f1, _f2, _f3]
PX = np.array([0.5, 1.0, 2.0, 3.0, 4.5])


def proto_x(h, r):
    """abscissae of function h in round r (every round has its own pairs)"""
    return PX * (1.0 + 0.25 * r) + 0.0625 * h


def proto_y(h, r):
    """data of function h in round r (deterministic, generic)"""
    g = np.random.default_rng(7919 * (r + 1) + 31 * h)
    return 0.5 + (0.3 + 0.2 * h) * PX * (1 + r) + g.uniform(-0.4, 0.4, len(PX))


# decoration of the functions of a history (case["deco"]): every function, chained or not, gets (inactive) bounds
# and a weights callable, so that the callback re-fit runs through `weights(x, y)` and the bounded branch
DECO_BOUNDS = {"tuples": [(-100.0, 100.0), (None, 100.0)], "lists": [[-100.0, None], [-100, 100]]}
DECO_WEIGHTS = {
    "y": lambda x, y: y,  # (returns the list itself when y arrives as a list)
    "x": lambda x, y: x,
    "1/y": lambda x, y: np.mean(y) / np.asarray(y),
}


def deco_of(case, h):
    d = case.get("deco")
    return d[h] if d else None


def build_objects(decls, deco=None):
    from virocon.dependencies import DependenceFunction

    objs = []
    for h, cs in enumerate(decls):
        kw = {f"c{i}": objs[g] for i, g in enumerate(cs)}
        if deco and deco[h]:
            b, w = deco[h].get("bounds"), deco[h].get("weights")
            objs.append(DependenceFunction(PFUNCS[len(cs)], bounds=DECO_BOUNDS[b] if b else None,
                                           weights=DECO_WEIGHTS[w] if w else None, **kw))
        else:
            objs.append(DependenceFunction(PFUNCS[len(cs)], **kw))
    return objs


def deco_lsq_weights(case, h, x, y):
    """weights W_i of the objective sum_i W_i r_i^2 the code minimises for function h: curve_fit(sigma=weights(x, y)),
    i.e. W = 1/sigma^2 (the documented semantics W = weights(x, y) is the known finding of Part B)"""
    d = deco_of(case, h)
    if not d or not d.get("weights"):
        return [Fraction(1)] * len(y)
    sig = np.asarray(DECO_WEIGHTS[d["weights"]](np.asarray(x, dtype=float), np.asarray(y, dtype=float)), dtype=float)
    return [Fraction(1) / (fr(v) ** 2) for v in sig]


def proto_call_y(case, f, r):
    """the y object of a public call: ndarray, or a Python list (what ConditionalDistribution.fit hands over)"""
    y = proto_y(f, r)
    return [float(v) for v in y] if case.get("ylist") else y


def _same_content(a, b):
    try:
        return bool(np.array_equal(np.asarray(a, dtype=float), np.asarray(b, dtype=float)))
    except Exception:  # noqa: BLE001
        return False


class FitRecorder:
    """Recorders inside this process (the real code still runs):
    * `DependenceFunction.fit`: the PUBLIC calls (depth 0; the `self.fit(self.x, self.y)` of a callback is nested)
      with the x/y objects handed over and the round (`self.round`, set by the harness) they belong to;
    * `DependenceFunction._fit`: the `_fit` executions (versions, versions seen);
    * `virocon.dependencies.fit_function` / `fit_constrained_function`: what reaches the optimiser for every
      `_fit`: function object, x/y objects, p0; and what comes back."""

    def __init__(self, objs):
        self.objs = objs
        self.index = {id(o): i for i, o in enumerate(objs)}
        self.counts = [0] * len(objs)
        self.seen = {}
        self.log = []
        self.round = 0
        self.depth = 0
        self.calls = 0
        self.public = [[] for _ in objs]  # per function: public calls {call, epoch, x, y} (objects kept alive)
        self.public_seq = []  # (function, epoch) in call order
        self.fit_events = []  # what `_fit` received
        self.opt_events = []  # what reached the optimiser
        self.results = [[] for _ in objs]  # per function: parameter tuples returned by the optimiser
        self.initial = [tuple(float(v) for v in o.parameters.values()) for o in objs]

    def __enter__(self):
        import virocon.dependencies as D

        self.D = D
        self.cls = D.DependenceFunction
        self.orig = D.DependenceFunction._fit
        self.orig_fit = D.DependenceFunction.fit
        self.orig_ff, self.orig_fcf = D.fit_function, D.fit_constrained_function
        rec = self

        def fit(obj, x, y):
            h = rec.index.get(id(obj))
            if h is not None and rec.depth == 0:
                rec.calls += 1
                rec.public[h].append({"call": rec.calls, "epoch": rec.round, "x": x, "y": y})
                rec.public_seq.append((h, rec.round))
            rec.depth += 1
            try:
                return rec.orig_fit(obj, x, y)
            finally:
                rec.depth -= 1

        def _fit(obj, x, y):
            h = rec.index.get(id(obj))
            if h is not None:
                rec.seen[h] = list(rec.counts)
                rec.counts[h] += 1
                rec.log.append(h)
                rec.fit_events.append({"fn": h, "x": x, "y": y, "call": rec.calls})
            return rec.orig(obj, x, y)

        def wrap_opt(orig):
            def opt(func, x, y, p0, *a, **kw):
                h = rec.index.get(id(func))
                if h is not None:
                    ev = {"fn": h, "x": x, "y": y, "p0": tuple(float(v) for v in p0), "call": rec.calls,
                          "n_public": len(rec.public[h])}
                    rec.opt_events.append(ev)
                popt = orig(func, x, y, p0, *a, **kw)
                if h is not None:
                    rec.results[h].append(tuple(float(v) for v in popt))
                return popt

            return opt

        D.DependenceFunction.fit = fit
        D.DependenceFunction._fit = _fit
        D.fit_function = wrap_opt(self.orig_ff)
        D.fit_constrained_function = wrap_opt(self.orig_fcf)
        return self

    def __exit__(self, *a):
        self.cls._fit = self.orig
        self.cls.fit = self.orig_fit
        self.D.fit_function, self.D.fit_constrained_function = self.orig_ff, self.orig_fcf

    # ---- mapping the observed objects back to epochs / tokens ----------
    def epoch_of(self, h, arr, key, upto=None):
        """(epoch, is_latest, how) of the object `arr` among the public calls on h (first `upto` calls): by
        identity, else by content; (None, False, 'unknown') when it is none of them"""
        pcs = self.public[h] if upto is None else self.public[h][:upto]
        if not pcs:
            return None, False, "no-public-call"
        for how, same in (("identity", lambda a, b: a is b), ("content", _same_content)):
            hits = [i for i, pc in enumerate(pcs) if same(pc[key], arr)]
            if hits:
                i = hits[-1]
                latest = (i == len(pcs) - 1) or _same_content(pcs[-1][key], arr)
                return pcs[i]["epoch"], latest, how
        # the pairs of ANOTHER function?
        for g, other in enumerate(self.public):
            if g != h and any(pc[key] is arr for pc in other):
                return None, False, f"object handed to function {g}"
        return None, False, "unknown"

    def p0_token(self, h, p0, n_results):
        """0 = the values the constructor put in place; k = result of the k-th fit of h; None = neither"""
        if p0 == self.initial[h]:
            return 0
        for k in range(n_results, 0, -1):
            if self.results[h][k - 1] == p0:
                return k
        return None

    def events(self):
        """the `_fit` executions as observed at the optimiser interface, resolved"""
        out = []
        nres = [0] * len(self.objs)
        for ev in self.opt_events:
            h = ev["fn"]
            ex, lx, hx = self.epoch_of(h, ev["x"], "x", ev["n_public"])
            ey, ly, hy = self.epoch_of(h, ev["y"], "y", ev["n_public"])
            want = self.public[h][ev["n_public"] - 1]["epoch"] if ev["n_public"] else None
            out.append({"fn": h, "data": ex if ex == ey else None, "ex": ex, "ey": ey, "latest": lx and ly,
                        "how": hx if hx == hy else f"x:{hx} y:{hy}", "want": want,
                        "p0": self.p0_token(h, ev["p0"], nres[h]), "p0_values": ev["p0"], "call": ev["call"]})
            nres[h] += 1
        return out

    def stored_epoch(self, h):
        o = self.objs[h]
        if not (hasattr(o, "x") and hasattr(o, "y")):
            return None
        ex = self.epoch_of(h, o.x, "x")[0]
        ey = self.epoch_of(h, o.y, "y")[0]
        return ex if ex == ey and ex is not None else "?"


def _tok(v):
    return "-" if v is None else v


def _state(objs, rec, decls):
    evs = rec.events()
    first_p0, last_data = {}, {}
    for e in evs:
        first_p0.setdefault(e["fn"], e["p0"] if e["p0"] is not None else "?")
        last_data[e["fn"]] = e["data"] if e["data"] is not None else "?"
    return {
        "log": list(rec.log),
        "may": "".join("1" if o._may_fit else "0" for o in objs),
        "xy": "".join("1" if (hasattr(o, "x") and hasattr(o, "y")) else "0" for o in objs),
        "ver": list(rec.counts),
        "seen": [rec.seen[h][g] if h in rec.seen else 0 for h, cs in enumerate(decls) for g in cs],
        "fitted": [sorted(rec.index[id(g)] for g in o._fitted_conditioners) for o in objs],
        "params": [[float(v) for v in o.parameters.values()] for o in objs],
        # inputs of the fits
        "xyE": [_tok(rec.stored_epoch(h)) for h in range(len(objs))],
        "lastData": [_tok(last_data.get(h)) for h in range(len(objs))],
        "p0At": [_tok(first_p0.get(h)) for h in range(len(objs))],
        "calls": rec.calls,
        "ev": [[e["fn"], "?" if e["data"] is None else e["data"], "?" if e["p0"] is None else e["p0"], e["call"]]
               for e in evs],
        "fit_vs_opt": [[e["fn"], e["call"]] for e in rec.fit_events] == [[e["fn"], e["call"]] for e in rec.opt_events]
        and all(a["x"] is b["x"] and a["y"] is b["y"] for a, b in zip(rec.fit_events, rec.opt_events)),
        "ev_detail": [{k: e[k] for k in ("fn", "ex", "ey", "latest", "how", "want", "p0", "p0_values", "call")}
                      for e in evs],
    }


def inputs_oracle(st):
    """property clauses about the inputs of every `_fit` (on the real code's own record)"""
    bad = []
    for k, e in enumerate(st["ev_detail"]):
        if not e["latest"]:
            bad.append(("fit_receives_latest_pairs",
                        f"_fit #{k + 1} (function {e['fn']}, during public call {e['call']}) received x of epoch "
                        f"{e['ex']} / y of epoch {e['ey']} ({e['how']}), but the latest public fit call on function "
                        f"{e['fn']} supplied the pairs of epoch {e['want']}"))
            break
    for k, e in enumerate(st["ev_detail"]):
        if e["p0"] != 0:
            what = "neither the initial values nor an earlier result" if e["p0"] is None \
                else f"the result of fit #{e['p0']} of that function"
            bad.append(("start_values_are_initial",
                        f"_fit #{k + 1} (function {e['fn']}, during public call {e['call']}) started the optimiser "
                        f"from {list(e['p0_values'])} = {what}, not from the initial parameter values"))
            break
    return bad


def run_history_impl(case):
    """case: {decls, ops: [[f, round], ...]} -> state dict (+ 'err')"""
    decls, ops = case["decls"], case["ops"]
    with warnings.catch_warnings():
        warnings.simplefilter("ignore")
        objs = build_objects(decls, case.get("deco"))
        with FitRecorder(objs) as rec:
            err = None
            try:
                for f, r in ops:
                    rec.round = r
                    objs[f].fit(proto_x(f, r), proto_call_y(case, f, r))  # fresh objects for every call
            except Exception as e:  # noqa: BLE001
                err = f"{type(e).__name__}: {str(e)[:120]}"
        st = _state(objs, rec, decls)
        if err:
            st["err"] = err
        st["oracle"] = history_oracle(case, objs, st)
    return st


def _ref_params(decls, last_round, case=None):
    """fit fresh objects in declaration (= dependency) order with each function's final data"""
    case = case or {}
    with warnings.catch_warnings():
        warnings.simplefilter("ignore")
        objs = build_objects(decls, case.get("deco"))
        for h in range(len(decls)):
            objs[h].fit(proto_x(h, last_round[h]), proto_call_y(case, h, last_round[h]))
    return [[float(v) for v in o.parameters.values()] for o in objs]


_REF_CACHE = {}


def final_complete_round(N, ops):
    """epoch r if the history ends with a complete round of epoch r (every function called with epoch r after the
    last call of any other epoch), else None"""
    if not ops:
        return None
    r = ops[-1][1]
    tail = set()
    for f, e in reversed(ops):
        if e != r:
            break
        tail.add(f)
    return r if tail == set(range(N)) else None


def graph_kinds(decls):
    """chained (a conditioner that has a conditioner), diamond (two conditioners with a common ancestor),
    double binding (a conditioner bound to two keywords)"""
    anc = []
    for cs in decls:
        a = set()
        for g in cs:
            a |= {g} | anc[g]
        anc.append(a)
    kinds = []
    if any(decls[g] for cs in decls for g in cs):
        kinds.append("chained")
    if any(({a} | anc[a]) & ({b} | anc[b]) for cs in decls for a in set(cs) for b in set(cs) if a < b):
        kinds.append("diamond")
    if any(len(set(cs)) < len(cs) for cs in decls):
        kinds.append("double-binding")
    return kinds


def history_oracle(case, objs, st):
    """property clauses on the real objects; list of (predicate, detail)"""
    bad = []
    decls, ops = case["decls"], case["ops"]
    N = len(decls)
    if "err" in st:
        bad.append(("history_raises", st["err"]))
        return bad
    # the inputs of every `_fit`: latest pairs, initial start values
    bad += inputs_oracle(st)
    # every fitted function = exact least squares of the pairs of its latest public call, given the current
    # conditioners
    anc_fitted = []  # h and all functions it (transitively) uses have been fitted
    for h in range(N):
        anc_fitted.append(st["ver"][h] > 0 and all(anc_fitted[g] for g in decls[h]))
    for h in range(N):
        # (an unfitted intermediate function passes changes of *its* conditioners through without a
        # callback; the property speaks about functions whose conditioners have been fitted)
        if not anc_fitted[h]:
            continue
        # the data of this function's LAST public fit call, taken from the history itself (not from what the
        # object happens to have stored: a stale or missing o.x / o.y is exactly what must not go unnoticed)
        last_round = [r for f, r in ops if f == h]
        if not last_round:
            continue
        xh = proto_x(h, last_round[-1])
        if decls[h]:
            s = sum(np.asarray(objs[g](xh), dtype=float) for g in decls[h])
        else:
            s = xh
        rows = [[Fraction(1), fr(v)] for v in s]
        y = [fr(v) for v in np.asarray(proto_y(h, last_round[-1]), dtype=float)]
        sol = exact_lsq(rows, y, deco_lsq_weights(case, h, xh, proto_y(h, last_round[-1])))
        if sol is None:
            continue
        want = [float(v) for v in sol]
        got = st["params"][h]
        d = deco_of(case, h)
        if d and d.get("bounds"):
            for v, (lo, hi) in zip(got, DECO_BOUNDS[d["bounds"]]):
                if not ((lo is None or lo <= v) and (hi is None or v <= hi)):
                    bad.append(("in_bounds", f"function {h}: parameters {got} outside the declared bounds "
                                             f"{DECO_BOUNDS[d['bounds']]}"))
        if not close_params(got, want):
            bad.append(("fitted_after_conditioners",
                        f"function {h}: parameters {got} but the fit of the pairs of its latest public call (round "
                        f"{last_round[-1]}) given the current parameters of its conditioners {decls[h]} is {want}"))
    called = {f for f, _ in ops}
    if called == set(range(N)):
        for h in range(N):
            if st["ver"][h] == 0:
                bad.append(("all_called_all_fitted", f"function {h} was fit-called but never fitted"))
        if not any(b[0] == "all_called_all_fitted" for b in bad):
            last = {}
            for f, r in ops:
                last[f] = r
            key = json.dumps([decls, [last[h] for h in range(N)], case.get("deco"), case.get("ylist")])
            if key not in _REF_CACHE:
                _REF_CACHE[key] = _ref_params(decls, [last[h] for h in range(N)], case)
            ref = _REF_CACHE[key]
            for h in range(N):
                if not close_params(st["params"][h], ref[h]):
                    bad.append(("order_independent",
                                f"function {h}: {st['params'][h]} differs from {ref[h]}, the parameters of fresh objects "
                                f"fitted in dependency order to the pairs of every function's latest public call"))
    r_end = final_complete_round(N, ops)
    if r_end is not None:
        lastev = {}
        for e in st["ev_detail"]:
            lastev[e["fn"]] = e
        for h in range(N):
            e = lastev.get(h)
            if e is not None and not (e["ex"] == r_end and e["ey"] == r_end):
                bad.append(("complete_round_last_fit_uses_round_pairs",
                            f"the history ends with a complete round of epoch {r_end}, but the last _fit of function "
                            f"{h} ran on x of epoch {e['ex']} / y of epoch {e['ey']}"))
                break
    return bad


def history_model_line(case, op="proto"):
    toks = ["RUN", op, str(len(case["decls"]))]
    for cs in case["decls"]:
        toks += il(cs)
    toks += il([f for f, _ in case["ops"]])
    toks += il([r for _, r in case["ops"]])
    return toks


def parse_proto(ans, decls):
    t = ans.split()
    if t[0] != "OK":
        return {"err": " ".join(t[1:])}
    p = 1

    def nats(opt=False):
        nonlocal p
        k = int(t[p])
        out = [("-" if v == "-" else int(v)) if opt else int(v) for v in t[p + 1:p + 1 + k]]
        p += 1 + k
        return out

    log = nats()
    may = t[p]
    xy = t[p + 1]
    p += 2
    ver = nats()
    seen = nats()
    fitted = [sorted(nats()) for _ in decls]
    xyE, last, p0at = nats(True), nats(True), nats(True)
    calls = int(t[p])
    nev = int(t[p + 1])
    p += 2
    ev = [[int(v) for v in t[p + 4 * i:p + 4 * i + 4]] for i in range(nev)]
    return {"log": log, "may": may, "xy": xy, "ver": ver, "seen": seen, "fitted": fitted,
            "xyE": xyE, "lastData": last, "p0At": p0at, "calls": calls, "ev": ev}


def compare_history(st, m):
    if "err" in m:
        return "model refuses the history: " + m["err"]
    for k in ("log", "may", "xy", "ver", "seen", "fitted", "calls", "ev", "xyE", "lastData", "p0At"):
        if st[k] != m[k]:
            return f"{k}: impl={st[k]} model={m[k]}" + (
                "   (ev = [function, data epoch, start-value token, public call number] per _fit)" if k == "ev" else "")
    if not st["fit_vs_opt"]:
        return "the _fit executions and the optimiser calls do not correspond one to one (function, x/y objects)"
    return None


def hist_sig(pred):
    return {"entry": "DependenceFunction.fit/_fit/callback", "predicate": pred}


def all_decls(N, max_conds=3):
    """all labelled DAGs whose labelling is a construction order: conds h subset of {0..h-1}"""
    per = []
    for h in range(N):
        subs = []
        for k in range(0, min(h, max_conds) + 1):
            subs += [list(c) for c in itertools.combinations(range(h), k)]
        per.append(subs)
    for combo in itertools.product(*per):
        yield [list(c) for c in combo]


NAMED = {
    "chain2": [[], [0]],
    "chain3": [[], [0], [1]],
    "fork": [[], [0], [0]],
    "join": [[], [], [0, 1]],
    "join-swapped-keywords": [[], [], [1, 0]],
    "diamond": [[], [0], [0], [1, 2]],
    "diamond-swapped-keywords": [[], [0], [0], [2, 1]],
    "chain4": [[], [0], [1], [2]],
    "double-binding": [[], [0, 0]],
    "triangle": [[], [0], [0, 1]],
}


def history_cases(ck, rng, thorough):
    """generator of history cases"""
    # (1) every labelled DAG with N <= 3: all call sequences up to length 4, all one/two-round orders
    for N in (1, 2, 3):
        for decls in all_decls(N):
            for L in range(1, 5):
                for seq in itertools.product(range(N), repeat=L):
                    yield {"kind": "history", "gen": "exhaustive-seq", "decls": decls,
                           "ops": [[f, 0] for f in seq]}
            for p1 in itertools.permutations(range(N)):
                for p2 in itertools.permutations(range(N)):
                    yield {"kind": "history", "gen": "two-rounds", "decls": decls,
                           "ops": [[f, 0] for f in p1] + [[f, 1] for f in p2]}
    # (2) N = 4: all 64 labelled DAGs, all 24 one-round orders; two rounds: named shapes (all 576),
    #     other DAGs sampled (quick) or complete (thorough)
    named4 = [d for d in NAMED.values() if len(d) == 4]
    for decls in list(all_decls(4)) + [NAMED["diamond-swapped-keywords"]]:
        for p1 in itertools.permutations(range(4)):
            yield {"kind": "history", "gen": "one-round", "decls": decls, "ops": [[f, 0] for f in p1]}
        perms = list(itertools.permutations(range(4)))
        pairs = [(a, b) for a in perms for b in perms]
        if not thorough and decls not in named4:
            pairs = [pairs[i] for i in rng.choice(len(pairs), size=6, replace=False)]
        for p1, p2 in pairs:
            yield {"kind": "history", "gen": "two-rounds", "decls": decls,
                   "ops": [[f, 0] for f in p1] + [[f, 1] for f in p2]}
    for name in ("join-swapped-keywords", "double-binding"):
        decls = NAMED[name]
        N = len(decls)
        for L in range(1, 6):
            for seq in itertools.product(range(N), repeat=L):
                yield {"kind": "history", "gen": "exhaustive-seq", "decls": decls, "ops": [[f, 0] for f in seq]}
    # (2b) rounds with different pairs per round: chains, diamonds, a function bound twice, random DAGs; every round
    #      in a random order (= order of the parameters dict); complete and partial rounds, 1..3 rounds
    for _ in range(20000 if thorough else 700):
        shape = str(rng.choice(["chain", "diamond", "double", "random"]))
        if shape == "chain":
            N = int(rng.integers(2, 6))
            decls = [[]] + [[h - 1] for h in range(1, N)]
        elif shape == "diamond":
            decls = [[], [0], [0], [1, 2]] if rng.integers(0, 2) else [[], [0], [0], [2, 1]]
            if rng.integers(0, 2):
                decls = decls + [[3]]
            if rng.integers(0, 3) == 0:
                decls = decls + [[0, len(decls) - 1]]
        elif shape == "double":
            decls = [[], [0, 0]]
            if rng.integers(0, 2):
                decls = decls + [[1]]
            if rng.integers(0, 2):
                decls = decls + [[0, len(decls) - 1, len(decls) - 1]]
        else:
            N = int(rng.integers(2, 7))
            decls = []
            for h in range(N):
                k = int(rng.integers(0, min(h, 3) + 1))
                decls.append([int(v) for v in rng.choice(h, size=k, replace=bool(rng.integers(0, 6) == 0))] if k else [])
        N = len(decls)
        n_rounds = int(rng.integers(1, 4))
        ops, kinds = [], []
        for r in range(n_rounds):
            if rng.integers(0, 10) < (8 if r == n_rounds - 1 else 6):
                order = [int(f) for f in rng.permutation(N)]
                if rng.integers(0, 8) == 0:  # a function fitted twice within the round
                    order.insert(int(rng.integers(0, N + 1)), int(rng.integers(0, N)))
                kinds.append("complete")
            else:
                k = int(rng.integers(1, N))
                order = [int(f) for f in rng.permutation(N)[:k]]
                kinds.append("partial")
            ops += [[f, r] for f in order]
        yield {"kind": "history", "gen": "rounds", "shape": shape, "rounds": kinds, "decls": decls, "ops": ops}
    # (2c) decorated functions: every chained function (and most others) carries bounds (inactive; tuples or lists,
    #      float or int entries) and a weights callable, so that the re-fit triggered by a callback runs through
    #      weights(x, y) and the bounded branch of fit_function; y handed over as ndarray or as a Python list
    def random_deco(decls):
        deco = []
        for cs in decls:
            if cs or rng.integers(0, 4):
                deco.append({"bounds": str(rng.choice(["tuples", "lists"])) if (cs or rng.integers(0, 2)) else None,
                             "weights": str(rng.choice(["y", "x", "1/y"]))})
            else:
                deco.append(None)
        return deco

    for name in ("chain2", "chain3", "fork", "join", "diamond", "double-binding", "triangle", "chain4"):
        decls = NAMED[name]
        N = len(decls)
        perms = list(itertools.permutations(range(N)))
        one = perms if (thorough or N <= 3) else [perms[i] for i in rng.choice(len(perms), size=8, replace=False)]
        for p1 in one:
            yield {"kind": "history", "gen": "decorated", "decls": decls, "deco": random_deco(decls),
                   "ylist": bool(rng.integers(0, 2)), "ops": [[f, 0] for f in p1]}
        for _ in range(40 if thorough else 5):
            p1, p2 = perms[int(rng.integers(0, len(perms)))], perms[int(rng.integers(0, len(perms)))]
            yield {"kind": "history", "gen": "decorated", "decls": decls, "deco": random_deco(decls),
                   "ylist": bool(rng.integers(0, 2)), "ops": [[f, 0] for f in p1] + [[f, 1] for f in p2]}
    # (3) random longer histories on random DAGs with 5..7 functions
    for _ in range(6000 if thorough else 150):
        N = int(rng.integers(5, 8))
        decls = []
        for h in range(N):
            k = int(rng.integers(0, min(h, 3) + 1))
            cs = [int(v) for v in rng.choice(h, size=k, replace=bool(rng.integers(0, 8) == 0))] if k else []
            decls.append(cs)
        L = int(rng.integers(1, 21))
        ops = [[int(rng.integers(0, N)), int(rng.integers(0, 3))] for _ in range(L)]
        if rng.integers(0, 2):
            ops += [[int(f), 2] for f in rng.permutation(N)]
        yield {"kind": "history", "gen": "random", "decls": decls, "ops": ops}


def _proto_worker(cases):
    return [run_history_impl(c) for c in cases]


def process_histories(ck, cases, pool=None):
    if not cases:
        return
    if pool is not None and len(cases) > 400:
        k = 32
        chunks = [cases[i::k] for i in range(k)]
        res = pool.map(_proto_worker, chunks)
        impls = [None] * len(cases)
        for i, r in enumerate(res):
            impls[i::k] = r
    else:
        impls = _proto_worker(cases)
    answers = ck.driver.run([history_model_line(c) for c in cases])
    for case, st, ans in zip(cases, impls, answers):
        m = parse_proto(ans, case["decls"])
        N = len(case["decls"])
        dep_called = any(case["decls"][f] for f, _ in case["ops"])
        ck.case(case, nontrivial=(dep_called and len(case["ops"]) >= 2),
                sample=(ck.evaluations % 4001 == 0 or case["gen"] == "corpus:diamond_refit.json"))
        ck.count("history:" + case["gen"])
        ck.count(f"history:N={N}")
        if len(st["log"]) > len(case["ops"]):
            ck.count("history:cascade(re-fit by callback)")
        epochs = sorted({r for _, r in case["ops"]})
        ck.count(f"history:rounds={len(epochs)}")
        per_round = {r: {f for f, rr in case["ops"] if rr == r} for r in epochs}
        if any(fs != set(range(N)) for fs in per_round.values()):
            ck.count("history:partial-round(only some functions re-fitted)")
        if final_complete_round(N, case["ops"]) is not None:
            ck.count("history:ends-with-complete-round")
            if len(epochs) > 1:
                ck.count("history:re-fit(complete final round on new pairs)")
        for kind in graph_kinds(case["decls"]):
            ck.count("history:graph=" + kind)
        if case.get("deco"):
            cb = {e[0] for e in st["ev"] if 1 <= e[3] <= len(case["ops"]) and case["ops"][e[3] - 1][0] != e[0]}
            for h in sorted(cb):
                d = case["deco"][h]
                if d and d.get("weights") and d.get("bounds"):
                    ck.count("history:decorated:callback-re-fit-of-chained-function-with-bounds+weights")
                    break
            ck.count("history:decorated:y-as-" + ("list" if case.get("ylist") else "ndarray"))
        if any(1 <= e[3] <= len(case["ops"]) and case["ops"][e[3] - 1][0] != e[0] and e[1] not in ("?", epochs[0])
               for e in st["ev"]):
            ck.count("history:callback-triggered-fit-on-later-round-pairs")
        if any(e["how"] != "identity" for e in st["ev_detail"]):
            ck.count("history:pairs-identified-by-content(not identity)")
        if any(st["ver"][g] == 0 for h in range(N) if st["ver"][h] > 0 for g in case["decls"][h]):
            ck.count("history:fitted-with-unfitted-conditioner(intermediate)")
        for pred, detail in st["oracle"]:
            ck.fail(hist_sig(pred), case, detail)
        d = compare_history(st, m)
        if d is not None:
            if st["oracle"]:
                ck.count("divergence_with_oracle_failure")
            else:
                ck.diverge("protocol:event-log", case, d)


# ---- through ConditionalDistribution.fit ----------------------------------


def conddist_cases():
    # dependence graph over the parameters (mu, sigma) of a NormalDistribution
    for name, deps in (("sigma<-mu", {"mu": [], "sigma": ["mu"]}), ("mu<-sigma", {"sigma": [], "mu": ["sigma"]}),
                       ("independent", {"mu": [], "sigma": []})):
        for dict_order in (["mu", "sigma"], ["sigma", "mu"]):
            for rounds in (1, 2, 3):
                yield {"kind": "conddist", "gen": "conddist", "dist": "normal", "graph": name, "deps": deps,
                       "dict_order": dict_order, "rounds": rounds}
    # the same with bounds (inactive) and a weights callable on every function: through ConditionalDistribution.fit
    # the callable receives y as a Python LIST
    for name, deps in (("sigma<-mu", {"mu": [], "sigma": ["mu"]}), ("mu<-sigma", {"sigma": [], "mu": ["sigma"]})):
        for dict_order in (["mu", "sigma"], ["sigma", "mu"]):
            for rounds, w in ((1, "y"), (2, "x"), (2, "1/y")):
                yield {"kind": "conddist", "gen": "conddist", "dist": "normal", "graph": name, "deps": deps,
                       "dict_order": dict_order, "rounds": rounds, "deco_w": w}
    # three parameters (alpha, beta, gamma) of a WeibullDistribution: chain, fork-join ("diamond" needs four), a
    # conditioner bound twice; every order of the parameters dict; fit, re-fit, re-re-fit on different data
    graphs = (("gamma<-beta<-alpha", {"alpha": [], "beta": ["alpha"], "gamma": ["beta"]}),
              ("alpha<-beta<-gamma", {"gamma": [], "beta": ["gamma"], "alpha": ["beta"]}),
              ("gamma<-{alpha,beta<-alpha}", {"alpha": [], "beta": ["alpha"], "gamma": ["alpha", "beta"]}),
              ("gamma<-(beta,beta)", {"alpha": [], "beta": [], "gamma": ["beta", "beta"]}))
    for name, deps in graphs:
        for dict_order in itertools.permutations(["alpha", "beta", "gamma"]):
            for rounds in (2, 3):
                yield {"kind": "conddist", "gen": "conddist", "dist": "weibull", "graph": name, "deps": deps,
                       "dict_order": list(dict_order), "rounds": rounds}


def conddist_data(case, r):
    g = np.random.default_rng(100 + r)
    cv = [float(v) for v in np.array([1.0, 2.0, 3.0, 4.0, 5.0]) * (1.0 + 0.125 * r)]
    if case.get("dist", "normal") == "normal":
        data = [g.normal(1.0 + (0.5 + r) * c, 0.2 + 0.1 * c * (1 + r), 40) for c in cv]
    else:
        data = [g.weibull(1.5 + 0.2 * c + 0.1 * r, 60) * (1 + c + r) + 0.5 * c for c in cv]
    return data, cv


def run_conddist(case):
    from virocon.distributions import ConditionalDistribution, NormalDistribution, WeibullDistribution
    from virocon.dependencies import DependenceFunction

    deps = case["deps"]
    order = []  # declaration order: conditioners first
    while len(order) < len(deps):
        order += [p for p in deps if p not in order and all(g in order for g in deps[p])]
    objs, byname = [], {}
    with warnings.catch_warnings():
        warnings.simplefilter("ignore")
        y_types = []
        for p in order:
            kw = {f"c{i}": byname[g] for i, g in enumerate(deps[p])}
            if case.get("deco_w"):
                def wfun(x, y, _k=case["deco_w"]):
                    y_types.append(type(y).__name__)
                    return DECO_WEIGHTS[_k](x, y)

                kw.update(bounds=DECO_BOUNDS["tuples"], weights=wfun)
            o = DependenceFunction(PFUNCS[len(deps[p])], **kw)
            byname[p] = o
            objs.append(o)
        decls = [[order.index(g) for g in deps[p]] for p in order]
        template = NormalDistribution() if case.get("dist", "normal") == "normal" else WeibullDistribution()
        cd = ConditionalDistribution(template, {p: byname[p] for p in case["dict_order"]})
        handed = {}
        with FitRecorder(objs) as rec:
            err = None
            try:
                for r in range(case["rounds"]):
                    data, cv = conddist_data(case, case.get("_data_round", r))
                    rec.round = r
                    cd.fit(data, cv, [(c - 0.5, c + 0.5) for c in cv], method="mle")
                    # what this round must have handed over (independent of what the objects stored)
                    handed[r] = (np.asarray(cv, dtype=float),
                                 {p: [float(pp[p]) for pp in cd.parameters_per_interval] for p in order})
            except Exception as e:  # noqa: BLE001
                err = f"{type(e).__name__}: {str(e)[:120]}"
        ops = [[h, r] for h, r in rec.public_seq]
        st = _state(objs, rec, decls)
        if err:
            st["err"] = err
        bad = []
        if err:
            bad.append(("history_raises", err))
        else:
            # (the loop runs over cd.conditional_parameters, which follows the template's parameter order, whatever
            # the order of the dict the user passed)
            want_ops = [[order.index(p), r] for r in range(case["rounds"]) for p in cd.conditional_parameters]
            if ops != want_ops:
                bad.append(("conddist_fits_every_parameter_once_per_fit",
                            f"public fit calls (function, round) {ops}, expected {want_ops}"))
            bad += inputs_oracle(st)
            r_last = case["rounds"] - 1
            x, ys = handed[r_last]
            for h, o in enumerate(objs):
                if st["ver"][h] == 0:
                    bad.append(("all_called_all_fitted", f"parameter {order[h]} never fitted"))
                    continue
                y_handed = ys[order[h]]
                # the pairs each public call received = (conditioning values, that parameter's interval estimates)
                for pc in rec.public[h]:
                    xr, yr = handed[pc["epoch"]]
                    if not (_same_content(pc["x"], xr) and _same_content(pc["y"], yr[order[h]])):
                        bad.append(("conddist_passes_interval_parameters",
                                    f"{order[h]}, round {pc['epoch']}: the pairs handed to fit are not (conditioning "
                                    f"values, interval estimates of {order[h]})"))
                        break
                s = sum(np.asarray(objs[g](x), dtype=float) for g in decls[h]) if decls[h] else x
                wq = [Fraction(1)] * len(x)
                if case.get("deco_w"):
                    sig = np.asarray(DECO_WEIGHTS[case["deco_w"]](x, np.asarray(y_handed, dtype=float)), dtype=float)
                    wq = [Fraction(1) / fr(v) ** 2 for v in sig]
                    for v, (lo, hi) in zip(st["params"][h], DECO_BOUNDS["tuples"]):
                        if not ((lo is None or lo <= v) and (hi is None or v <= hi)):
                            bad.append(("in_bounds", f"{order[h]}: {st['params'][h]} outside {DECO_BOUNDS['tuples']}"))
                sol = exact_lsq([[Fraction(1), fr(v)] for v in s], [fr(v) for v in y_handed], wq)
                if sol is not None and not close_params(st["params"][h], [float(v) for v in sol]):
                    bad.append(("fitted_after_conditioners",
                                f"{order[h]}: {st['params'][h]} vs fit of the last round's pairs given current "
                                f"conditioners {[float(v) for v in sol]}"))
            # re-fit = fresh fit: a fresh ConditionalDistribution fitted once to the last round's data
            if case["rounds"] > 1 and not bad:
                fresh = run_conddist(dict(case, rounds=1, _data_round=r_last))[0]
                for h in range(len(objs)):
                    if "params" in fresh and not close_params(st["params"][h], fresh["params"][h], tol=1e-4):
                        bad.append(("refit_equals_fresh_fit",
                                    f"{order[h]}: {st['params'][h]} after {case['rounds']} fits, {fresh['params'][h]} "
                                    f"for a fresh model fitted to the last round's data"))
        st["oracle"] = bad
        st["weights_y_types"] = sorted(set(y_types))
    return st, decls, ops


def process_conddist(ck):
    cases = list(conddist_cases())
    res = [run_conddist(c) for c in cases]
    lines = [history_model_line({"decls": d, "ops": o}) for (_, d, o) in res]
    answers = ck.driver.run(lines)
    for case, (st, decls, ops), ans in zip(cases, res, answers):
        full = dict(case, decls=decls, ops=ops)
        ck.case(full, nontrivial=any(decls), sample=(case["rounds"] == 2 and case["graph"] == "mu<-sigma"
                                                      and case["dict_order"] == ["mu", "sigma"]))
        ck.count("history:conddist")
        ck.count(f"history:conddist:rounds={case['rounds']}")
        for t in st.get("weights_y_types", []):
            ck.count("history:conddist:weights-callable-received-y-as-" + t)
        for kind in graph_kinds(decls):
            ck.count("history:conddist:graph=" + kind)
        for pred, detail in st["oracle"]:
            ck.fail({"entry": "ConditionalDistribution.fit", "predicate": pred}, full, detail)
        d = compare_history(st, parse_proto(ans, decls))
        if d is not None and not st["oracle"]:
            ck.diverge("protocol:ConditionalDistribution.fit", full, d)


# ---- the chained pair of the predefined OMAE2020 wind-wave model ----------
# beta = logistics4 (start values = integer defaults of the signature, bounds, weights=y), alpha = alpha3 with
# d_of_x=beta (bounds, weights=y): the chained function is non-linear, bounded and weighted, and is (re-)fitted by
# the callback of beta when it is listed first.


def _logistics4(x, a=1, b=1, c=-1, d=1):
    return a + b / (1 + np.exp(c * (x - d)))


def _alpha3(x, a, b, c, d_of_x):
    return (a + b * x**c) / 2.0445 ** (1 / d_of_x(x))


LOGISTICS_BOUNDS = [(0, None), (0, None), (None, 0), (0, None)]
ALPHA_BOUNDS = [(0, None), (0, None), (None, None)]


def chainfit_data(case, r):
    g = np.random.default_rng([case["data_seed"], r])
    n = case["n"]
    x = np.sort(np.round(1.0 + g.uniform(0, 2, n) + 2.0 * np.arange(n), 2))
    tb, ta = case["true_beta"], case["true_alpha"]
    yb = _logistics4(x, *tb)
    yb = yb * (1 + g.normal(0, 0.01, n))
    ya = (ta[0] + ta[1] * x ** ta[2]) / 2.0445 ** (1 / _logistics4(x, *tb))
    ya = ya * (1 + g.normal(0, 0.01, n)) * (1 + 0.05 * r)
    return x, np.abs(yb) + 1e-3, np.abs(ya) + 1e-3


def chainfit_cases(rng, thorough):
    for i in range(60 if thorough else 12):
        tb = [float(np.round(rng.uniform(0.5, 1.5), 3)), float(np.round(rng.uniform(0.8, 2.5), 3)),
              float(np.round(rng.uniform(-1.2, -0.4), 3)), float(np.round(rng.uniform(2, 9), 2))]
        # a < 0 at the unbounded optimum: the declared bound a >= 0 of the chained function is active
        a_act = bool(i % 2)
        ta = [float(np.round(rng.uniform(-0.6, -0.2) if a_act else rng.uniform(0.2, 1.0), 3)),
              float(np.round(rng.uniform(0.3, 0.8), 3)), float(np.round(rng.uniform(0.9, 1.6), 3))]
        for order in (["alpha", "beta"], ["beta", "alpha"]):
            yield {"kind": "chainfit", "gen": "chainfit", "true_beta": tb, "true_alpha": ta, "n": int(rng.integers(7, 14)),
                   "data_seed": int(rng.integers(0, 2**31)), "order": order, "rounds": 1 + (i % 3 == 0),
                   "ylist": bool(rng.integers(0, 2)), "alpha_bound_active": a_act}


def run_chainfit(case, want_ref=True):
    from virocon.dependencies import DependenceFunction

    out = {}
    with warnings.catch_warnings():
        warnings.simplefilter("ignore")
        beta = DependenceFunction(_logistics4, LOGISTICS_BOUNDS, weights=lambda x, y: y)
        alpha = DependenceFunction(_alpha3, ALPHA_BOUNDS, d_of_x=beta, weights=lambda x, y: y)
        objs = {"alpha": alpha, "beta": beta}
        out["declared_start"] = {k: list(o.parameters.values()) for k, o in objs.items()}
        try:
            for r in range(case["rounds"]):
                x, yb, ya = _chainfit_data_for(case, r)
                for name in case["order"]:
                    y = ya if name == "alpha" else yb
                    objs[name].fit(x, [float(v) for v in y] if case.get("ylist") else y)
            out["params"] = {k: [float(v) for v in o.parameters.values()] for k, o in objs.items()}
            out["may_fit"] = bool(alpha._may_fit)
        except Exception as e:  # noqa: BLE001   (curve_fit may legitimately give up: RuntimeError)
            out["err"] = f"{type(e).__name__}: {str(e)[:160]}"
            out["err_type"] = type(e).__name__
        if want_ref and "params" in out:
            ref = run_chainfit(dict(case, order=["beta", "alpha"], rounds=1, _round=case["rounds"] - 1), want_ref=False)
            out["ref"] = ref.get("params")
    return out


def _chainfit_data_for(case, r):
    return chainfit_data(case, case.get("_round", r))


def process_chainfit(ck, cases):
    for case in cases:
        impl = run_chainfit(case)
        bad = chainfit_oracle(case, impl, ck)
        ck.case(case, nontrivial="params" in impl, sample=(case["order"] == ["alpha", "beta"] and case["alpha_bound_active"]
                                                            and ck.dist.get("chainfit:sampled") is None))
        if case["order"] == ["alpha", "beta"] and case["alpha_bound_active"]:
            ck.count("chainfit:sampled")
        ck.count("chainfit:order=" + ",".join(case["order"]))
        ck.count(f"chainfit:rounds={case['rounds']}")
        ck.count("chainfit:y-as-" + ("list" if case.get("ylist") else "ndarray"))
        if "params" not in impl:
            ck.count("chainfit:optimiser-raised")
        for pred, detail in bad:
            ck.fail({"entry": "DependenceFunction.fit/_fit/callback", "predicate": pred,
                     "where": "chained function with bounds and weights (alpha3 with d_of_x=logistics4, OMAE2020)"},
                    case, detail)


def chainfit_oracle(case, impl, ck=None):
    bad = []
    if impl["declared_start"] != {"alpha": [1, 1, 1], "beta": [1, 1, -1, 1]} or any(
            type(v) is not int for vs in impl["declared_start"].values() for v in vs):
        bad.append(("start_parameters_are_signature_defaults",
                    f".parameters after construction are {impl['declared_start']}; the signatures declare "
                    f"beta (a=1, b=1, c=-1, d=1) and no defaults for alpha (-> 1, 1, 1)"))
    if "params" not in impl:
        if impl.get("err_type") != "RuntimeError":
            bad.append(("history_raises", impl.get("err", "?")))
        return bad
    if not impl["may_fit"]:
        bad.append(("all_called_all_fitted", "alpha was fit-called and beta fitted, but alpha may still not fit"))
    x, yb, ya = chainfit_data(case, case["rounds"] - 1)
    pb = impl["params"]["beta"]
    # the chained function given the CURRENT parameters of its conditioner
    fa = (lambda xx, a, b, c: (a + b * xx**c) / 2.0445 ** (1 / _logistics4(xx, *pb)))
    for name, f, y, p0, bounds in (("beta", _logistics4, yb, [1, 1, -1, 1], LOGISTICS_BOUNDS),
                                  ("alpha", fa, ya, [1, 1, 1], ALPHA_BOUNDS)):
        p = impl["params"][name]
        sub = {"shape": name, "x": [float(v) for v in x], "y": [float(v) for v in y], "p0": p0,
               "bounds": [list(b) for b in bounds], "weights": "y", "constraints": None}
        b2, info = fit_oracle(sub, {"popt": p, "w": [float(v) for v in y]}, fobj=(f, len(p0), False))
        for pred, detail in b2:
            bad.append((pred, f"{name}: {detail}"))
        if ck is not None and info.get("on_bound"):
            ck.count(f"chainfit:{name}-result-on-a-declared-bound")
    if impl.get("ref") is not None:
        for name in ("beta", "alpha"):
            if not close_params(impl["params"][name], impl["ref"][name]):
                bad.append(("order_independent",
                            f"{name}: {impl['params'][name]} after {case['rounds']} round(s) in the order {case['order']}, "
                            f"but {impl['ref'][name]} for fresh objects fitted in dependency order (beta, alpha) to the "
                            f"last round's pairs"))
    return bad


# ---------------------------------------------------------------------------
# Part B: bounds, dispatch, fits


def process_cbounds(ck, rng, n_cases):
    from virocon._fitting import convert_bounds_for_curve_fit

    cases = [{"kind": "cbounds", "bounds": [[0, None], [None, 5.0], [None, None], [-1.5, 2]]}]
    for _ in range(n_cases):
        k = int(rng.integers(0, 6))
        b = []
        for _ in range(k):
            kind = int(rng.integers(0, 4))
            lo = float(np.round(rng.normal(0, 3), int(rng.integers(0, 4))))
            hi = lo + float(np.round(abs(rng.normal(0, 3)), 2))
            if rng.integers(0, 5) == 0:
                lo = int(lo)
            b.append([lo if kind in (1, 3) else None, hi if kind in (2, 3) else None])
        cases.append({"kind": "cbounds", "bounds": b})
    lines = []
    for c in cases:
        toks = ["RUN", "cbounds", str(len(c["bounds"]))]
        for lo, hi in c["bounds"]:
            toks += ["-" if lo is None else str(f2b(lo)), "-" if hi is None else str(f2b(hi))]
        lines.append(toks)
    answers = ck.driver.run(lines)
    for c, ans in zip(cases, answers):
        ck.case(c, nontrivial=len(c["bounds"]) > 0, sample=False)
        ck.count("cbounds")
        bad = oracle_cbounds(c)
        for pred, detail in bad:
            ck.fail({"entry": "convert_bounds_for_curve_fit", "predicate": pred}, c, detail)
        try:
            lo, hi = convert_bounds_for_curve_fit([tuple(b) for b in c["bounds"]])
            impl = ["OK"] + fl(lo) + fl(hi)
        except Exception as e:  # noqa: BLE001
            impl = ["EXC", type(e).__name__]
        if impl != ans.split() and not bad:
            ck.diverge("convertBounds", c, f"impl={impl} model={ans}")


def oracle_cbounds(c):
    from virocon._fitting import convert_bounds_for_curve_fit

    bad = []
    try:
        out = convert_bounds_for_curve_fit([tuple(b) for b in c["bounds"]])
    except Exception as e:  # noqa: BLE001
        return [("convert_bounds_raises", f"{type(e).__name__}: {e}")]
    lo, hi = out
    if len(lo) != len(c["bounds"]) or len(hi) != len(c["bounds"]):
        return [("convert_bounds_alignment", f"lengths {len(lo)}, {len(hi)} for {len(c['bounds'])} parameters")]
    for i, (l, u) in enumerate(c["bounds"]):
        wl = -np.inf if l is None else l
        wu = np.inf if u is None else u
        if not (lo[i] == wl and hi[i] == wu):
            bad.append(("convert_bounds_alignment", f"parameter {i}: declared ({l}, {u}) converted to ({lo[i]}, {hi[i]})"))
    return bad


# ---- shapes ---------------------------------------------------------------


def make_shape(name, k=None, m=None):
    """returns (func(x, *p), n_params, linear_in_parameters)"""
    if name == "linear2":
        return (lambda x, a, b: a + b * x), 2, True
    if name == "poly2":
        return (lambda x, a, b, c: a + b * x + c * x**2), 3, True
    if name == "poly3":
        return (lambda x, a, b, c, d: a + b * x + c * x**2 + d * x**3), 4, True
    if name == "sqrt2":
        return (lambda x, a, b: a + b * np.sqrt(x)), 2, True
    if name == "expk":
        return (lambda x, a, b: a + b * np.exp(k * x)), 2, True
    if name == "logistick":
        return (lambda x, a, b: a + b / (1 + np.exp(-k * (x - m)))), 2, True
    if name == "power3":
        return (lambda x, a, b, c: a + b * x**c), 3, False
    if name == "exp3":
        return (lambda x, a, b, c: a + b * np.exp(c * x)), 3, False
    if name == "lnsquare2":
        return (lambda x, a, b: np.log(a + b * np.sqrt(x / 9.81))), 2, False
    if name == "asymdecrease3":
        return (lambda x, a, b, c: a + b / (1 + c * x)), 3, False
    if name == "logistics4":
        return (lambda x, a, b, c, d: a + b / (1 + np.exp(c * (x - d)))), 4, False
    if name == "limited_growth2":
        return (lambda x, a, b: a * (1 - np.exp(-b * x))), 2, False
    raise KeyError(name)


TRUE_RANGES = {
    "linear2": [(-2, 3), (0.2, 2)],
    "poly2": [(-2, 3), (-1, 1), (0.05, 0.4)],
    "poly3": [(-2, 3), (-1, 1), (-0.3, 0.3), (0.01, 0.05)],
    "sqrt2": [(0, 3), (0.5, 3)],
    "expk": [(0, 3), (0.2, 2)],
    "logistick": [(0, 3), (0.5, 4)],
    "power3": [(0.2, 2), (0.3, 2), (0.6, 1.8)],
    "exp3": [(0.2, 2), (0.3, 2), (0.05, 0.3)],
    "lnsquare2": [(1, 3), (1, 6)],
    "asymdecrease3": [(0.05, 0.5), (0.1, 1), (0.05, 0.8)],
    "logistics4": [(0.5, 2), (1, 4), (-1.5, -0.3), (3, 7)],
    "limited_growth2": [(0.5, 3), (0.1, 0.8)],
}
LINEAR_SHAPES = ["linear2", "poly2", "poly3", "sqrt2", "expk", "logistick"]
NONLINEAR_SHAPES = ["power3", "exp3", "lnsquare2", "asymdecrease3", "logistics4", "limited_growth2"]
WEIGHT_KINDS = {
    "y": lambda x, y: y,
    "x": lambda x, y: x,
    "const": lambda x, y: np.full(len(x), 2.0),
    "1/y": lambda x, y: np.mean(y) / np.asarray(y),
    "y^2": lambda x, y: (np.asarray(y) / np.mean(y)) ** 2,
}


def gen_fit_case(rng, shape, bounds_mode, weights, cons_mode):
    k = m = None
    if shape == "expk":
        k = float(np.round(rng.uniform(0.05, 0.35), 3))
    if shape == "logistick":
        k, m = float(np.round(rng.uniform(0.4, 1.5), 2)), float(np.round(rng.uniform(3, 7), 1))
    f, npar, linear = make_shape(shape, k, m)
    true = [float(np.round(rng.uniform(a, b), 3)) for a, b in TRUE_RANGES[shape]]
    n = int(rng.integers(max(3, npar + (1 if linear else 2)), 21))
    x = np.sort(np.round(rng.uniform(0.5, 10, n), 3))
    while len(set(x)) < npar + 1:
        x = np.sort(np.round(rng.uniform(0.5, 10, n), 3))
    y0 = f(x, *true)
    y = y0 + rng.normal(0, 0.03, n) * (np.abs(y0).mean() + 0.1)
    p0 = [t * float(1 + rng.uniform(-0.25, 0.25)) for t in true]
    bounds = None
    jact = None
    if bounds_mode != "none":
        bounds = []
        jact = int(rng.integers(0, npar))
        for j, t in enumerate(true):
            kind = int(rng.integers(0, 4))
            w = 5.0 * (abs(t) + 1.0)
            lo, hi = t - w, t + w
            if bounds_mode == "active" and j == jact:
                # cut the true value off: the optimum has to sit on (or near) the bound
                if rng.integers(0, 2):
                    lo, kind = t + 0.15 * (abs(t) + 0.2), 3 if kind in (0, 2) else kind
                    hi = lo + w
                else:
                    hi, kind = t - 0.15 * (abs(t) + 0.2), 3 if kind in (0, 1) else kind
                    lo = hi - w
            if shape in ("lnsquare2", "power3", "asymdecrease3", "limited_growth2", "logistics4"):
                lo = max(lo, 0.0) if t > 0 else lo  # keep the shapes defined
                kind = 3 if kind in (0, 2) and t > 0 else kind
            b = [float(np.round(lo, 3)) if kind in (1, 3) else None, float(np.round(hi, 3)) if kind in (2, 3) else None]
            bounds.append(b)
            if b[0] is not None:
                p0[j] = max(p0[j], b[0] + 1e-3 * (1 + abs(b[0])))
            if b[1] is not None:
                p0[j] = min(p0[j], b[1] - 1e-3 * (1 + abs(b[1])))
    cons = None
    if cons_mode != "none":
        items = []
        for _ in range(1 if cons_mode.startswith("dict") else int(rng.integers(1, 3))):
            j = int(rng.integers(0, npar))
            if bounds_mode == "active" and j == jact:
                # keep the admissible set non-empty: the constraint cuts along another axis than the active bound
                j = (j + 1 + int(rng.integers(0, npar - 1))) % npar
            sign = int(rng.choice([-1, 1]))
            coef = [0.0] * npar
            coef[j] = float(sign)
            if rng.integers(0, 3) == 0 and npar >= 2:
                coef[(j + 1) % npar] = float(np.round(rng.uniform(-0.5, 0.5), 2))
            val = sum(c * t for c, t in zip(coef, true))
            margin = 0.2 * (abs(true[j]) + 0.2)
            # sum coef*p - rhs >= 0 ; active: violated at the unconstrained optimum
            rhs = val + margin if cons_mode.split("-")[1] == "active" and not items else val - 3 * margin
            items.append({"coef": coef, "rhs": float(np.round(rhs, 4))})
        cons = {"form": "dict" if cons_mode.startswith("dict") else "list", "items": items}
    p0 = [float(v) for v in p0]
    # how the start values get into the object: assigned to `.parameters` (as before), or declared as defaults in
    # the signature of the shape (all of them / only the trailing ones, the others then start at 1: only without
    # bounds, 1 may be outside)
    p0_via = str(rng.choice(["assign", "defaults", "defaults", "partial-defaults"]))
    if p0_via == "partial-defaults" and (bounds is not None or shape == "lnsquare2"):
        p0_via = "defaults"
    if p0_via == "partial-defaults":
        nd = int(rng.integers(0, npar))  # number of trailing parameters with a default
        p0 = [1] * (npar - nd) + p0[npar - nd:]
    # form of the bounds: list of tuples (as in predefined.py), list of lists, integer-valued entries as Python ints
    bounds_form = "tuples"
    if bounds is not None:
        bounds_form = str(rng.choice(["tuples", "lists", "int"]))
        if bounds_form == "int":
            def as_int(v, up, j):
                if v is None:
                    return None
                w = int(np.ceil(v)) if up else int(np.floor(v))
                # only where rounding outwards changes nothing for the case (the start stays strictly inside)
                return w if (bounds_mode != "active" or j != jact) else v
            bounds = [[as_int(lo, False, j), as_int(hi, True, j)] for j, (lo, hi) in enumerate(bounds)]
    # y as a Python list (what ConditionalDistribution.fit hands over) or as an ndarray
    y_as = "list" if rng.integers(0, 3) == 0 else "ndarray"
    return {"kind": "fit", "gen": "random", "shape": shape, "k": k, "m": m, "x": [float(v) for v in x],
            "y": [float(v) for v in y], "p0": p0, "bounds": bounds, "weights": weights,
            "constraints": cons, "bounds_mode": bounds_mode, "cons_mode": cons_mode, "p0_via": p0_via,
            "bounds_form": bounds_form, "y_as": y_as}


def build_constraints(cons):
    if cons is None:
        return None, []
    dicts = []
    for it in cons["items"]:
        coef, rhs = np.array(it["coef"], dtype=float), float(it["rhs"])
        dicts.append({"type": "ineq", "fun": (lambda p, c=coef, r=rhs: float(np.dot(c, p) - r))})
    return (dicts[0] if cons["form"] == "dict" else dicts), dicts


class OptRecorder:
    """recorders around virocon._fitting.curve_fit / minimize (module globals); real scipy still runs"""

    def __init__(self):
        self.calls = []

    def __enter__(self):
        import virocon._fitting as F

        self.F = F
        self.o_cf, self.o_min = F.curve_fit, F.minimize
        rec = self

        def curve_fit(f, xdata, ydata, p0=None, sigma=None, *a, **kw):
            rec.calls.append({"opt": "curve_fit", "f": f, "x": xdata, "y": ydata, "p0": p0, "sigma": sigma,
                              "bounds": kw.get("bounds"), "extra": sorted(set(kw) - {"bounds"}), "nargs": len(a)})
            return rec.o_cf(f, xdata, ydata, p0, sigma, *a, **kw)

        def minimize(fun, x0, *a, **kw):
            rec.calls.append({"opt": "minimize", "fun": fun, "p0": x0, "method": kw.get("method"),
                              "bounds": kw.get("bounds"), "constraints": kw.get("constraints", ()),
                              "nargs": len(a)})
            return rec.o_min(fun, x0, *a, **kw)

        F.curve_fit, F.minimize = curve_fit, minimize
        return self

    def __exit__(self, *a):
        self.F.curve_fit, self.F.minimize = self.o_cf, self.o_min


def run_fit_impl(case):
    from virocon.dependencies import DependenceFunction

    f, npar, linear = make_shape(case["shape"], case.get("k"), case.get("m"))
    x, y = np.array(case["x"], dtype=float), np.array(case["y"], dtype=float)
    cons_decl, cons_dicts = build_constraints(case["constraints"])
    wfun = WEIGHT_KINDS[case["weights"]] if case["weights"] else None
    bounds = None
    if case["bounds"] is not None:
        bounds = [list(b) for b in case["bounds"]] if case.get("bounds_form") == "lists" else [tuple(b) for b in case["bounds"]]
    via = case.get("p0_via", "assign")
    if via in ("defaults", "partial-defaults"):
        # start values declared in the signature of the shape (make_shape returns a fresh function object)
        lead = 0
        while via == "partial-defaults" and lead < npar and isinstance(case["p0"][lead], int) and case["p0"][lead] == 1:
            lead += 1
        f.__defaults__ = tuple(case["p0"][lead:]) or None
    dep = DependenceFunction(f, bounds=bounds, constraints=cons_decl, weights=wfun)
    out = {"npar": npar, "linear": linear}
    if via == "assign":
        dep.parameters = dict(zip(dep.parameters.keys(), case["p0"]))
    else:
        out["declared_start"] = [v for v in dep.parameters.values()]
    y_arg = [float(v) for v in y] if case.get("y_as") == "list" else y
    with warnings.catch_warnings():
        warnings.simplefilter("ignore")
        with OptRecorder() as rec:
            try:
                dep.fit(x, y_arg)
                out["popt"] = [float(v) for v in dep.parameters.values()]
            except NotImplementedError:
                out["err"] = "notImplemented"
            except Exception as e:  # noqa: BLE001
                out["err"] = f"{type(e).__name__}: {str(e)[:160]}"
        # canonical form of the optimiser call, as the model prints it
        try:
            _canonical_call(out, rec, case, dep, f, x, y, cons_dicts)
        except Exception as e:  # noqa: BLE001   (arguments of a kind the model cannot print: a divergence, not a crash)
            out["call"] = ["UNPRINTABLE", type(e).__name__, str(e)[:80].replace(" ", "_")]
            out["call_args_ok"] = False
        if wfun is not None:
            out["w"] = [float(v) for v in wfun(x, y)]
    return out


def _canonical_call(out, rec, case, dep, f, x, y, cons_dicts):
    if True:
        if len(rec.calls) == 1:
            c = rec.calls[0]
            if c["opt"] == "curve_fit":
                toks = ["OK", "curve_fit"] + fl(c["p0"])
                toks += ["-"] if c["sigma"] is None else fl(c["sigma"])
                toks += ["-"] if c["bounds"] is None else fl(c["bounds"][0]) + fl(c["bounds"][1])
                ok_args = (c["f"] is dep and (c["x"] is x or _same_content(c["x"], x))
                           and (c["y"] is y or _same_content(c["y"], y)) and not c["extra"] and c["nargs"] == 0)
            else:
                toks = ["OK", "slsqp"] + fl(c["p0"])
                if c["bounds"] is None:
                    toks += ["-"]
                else:
                    toks += [str(len(c["bounds"]))]
                    for lo, hi in c["bounds"]:
                        toks += ["-" if lo is None else str(f2b(lo)), "-" if hi is None else str(f2b(hi))]
                cs = c["constraints"]
                cs = [cs] if isinstance(cs, dict) else list(cs)
                ids = []
                for d in cs:
                    hit = [i for i, dd in enumerate(cons_dicts) if dd is d]
                    ids.append(hit[0] if hit else 99)
                toks += il(ids)
                # the objective handed to SLSQP must be the (unweighted) squared residual
                pt = np.array(case["p0"]) * 1.01 + 0.01
                want = float(np.sum((f(x, *pt) - y) ** 2))
                got = float(c["fun"](pt))
                ok_args = c["method"] == "SLSQP" and c["nargs"] == 0 and abs(got - want) <= 1e-9 * (1 + abs(want))
            out["call"] = toks
            out["call_args_ok"] = bool(ok_args)
        elif len(rec.calls) == 0:
            out["call"] = ["ERR", "notImplemented"] if out.get("err") == "notImplemented" else ["NOCALL"]
            out["call_args_ok"] = True
        else:
            out["call"] = ["MULTIPLE", str(len(rec.calls))]
            out["call_args_ok"] = False


def dispatch_model_line(case, w):
    toks = ["RUN", "dispatch"]
    if case["bounds"] is None:
        toks += ["-"]
    else:
        toks += [str(len(case["bounds"]))]
        for lo, hi in case["bounds"]:
            toks += ["-" if lo is None else str(f2b(lo)), "-" if hi is None else str(f2b(hi))]
    toks += ["-"] if case["constraints"] is None else il(range(len(case["constraints"]["items"])))
    toks += fl(case["p0"])
    toks += ["-"] if w is None else fl(w)
    return toks


def fit_sig(pred, where=None):
    s = {"entry": "DependenceFunction._fit", "predicate": pred}
    if where:
        s["where"] = where
    return s


def fit_oracle(case, impl, fobj=None):
    """property clauses evaluated on the real fit; returns (bad list, info dict)"""
    bad, info = [], {}
    f, npar, linear = fobj or make_shape(case["shape"], case.get("k"), case.get("m"))
    x, y = np.array(case["x"], dtype=float), np.array(case["y"], dtype=float)
    cons = case["constraints"]
    if "declared_start" in impl:
        ds = impl["declared_start"]
        if not (len(ds) == len(case["p0"]) and all(type(a) is type(b) and a == b for a, b in zip(ds, case["p0"]))):
            bad.append(("start_parameters_are_signature_defaults",
                        f".parameters after construction are {ds}; the signature of the shape declares the defaults "
                        f"{case['p0']} (parameters without a default start at 1)"))
    if "popt" not in impl:
        if impl.get("err") == "notImplemented" and cons is not None and case["weights"]:
            return bad, info  # explicit refusal: constrained + weighted
        if linear and cons is None:
            bad.append(("fit_raises_on_wellposed_linear_problem", impl.get("err", "?")))
        info["fit_failed"] = impl.get("err")
        return bad, info
    p = np.array(impl["popt"], dtype=float)
    p0 = np.array(case["p0"], dtype=float)
    sigma = np.array(impl["w"], dtype=float) if (case["weights"] and cons is None) else None

    def obj_impl(q):
        with np.errstate(all="ignore"):
            r = f(x, *q) - y
            if sigma is not None:
                r = r / sigma
            return float(np.sum(r * r))

    def in_bounds(q):
        if case["bounds"] is None:
            return True
        return all((lo is None or lo <= v) and (hi is None or v <= hi) for v, (lo, hi) in zip(q, case["bounds"]))

    def cons_vals(q):
        return [float(np.dot(it["coef"], q) - it["rhs"]) for it in cons["items"]] if cons else []

    def ctol(it):
        # SLSQP accepts a point whose summed constraint violation is below 10*acc (acc = ftol = 1e-6, relaxed test
        # after an inexact line search): observed -9.2e-6 on the unchanged code (exp3, active bound + active constraint)
        return 1e-5 + 1e-6 * (1.0 + abs(it["rhs"]) + float(np.dot(np.abs(it["coef"]), np.abs(p))))

    def admissible(q):
        return in_bounds(q) and all(v >= 0.0 for v in cons_vals(q))

    # 1. bounds (exact)
    if case["bounds"] is not None and any(
            (lo is not None and abs(v - lo) <= 1e-9 * (1 + abs(lo))) or (hi is not None and abs(v - hi) <= 1e-9 * (1 + abs(hi)))
            for v, (lo, hi) in zip(p, case["bounds"])):
        info["on_bound"] = True
    if not in_bounds(p):
        bad.append(("in_bounds", f"parameters {list(p)} outside declared bounds {case['bounds']}"))
    # 2. constraints
    if cons:
        for it, v in zip(cons["items"], cons_vals(p)):
            if v < -ctol(it):
                bad.append(("constraints_satisfied",
                            f"constraint {it} has value {v!r} < 0 at the returned parameters {list(p)}"))
                break
    fp = obj_impl(p)
    scale = float(np.sum((y / sigma) ** 2)) if sigma is not None else float(np.sum(y * y))
    atol = 1e-8 * scale + 1e-300  # gtol-type termination: absolute in units of the data
    if cons is not None:
        # SLSQP stops on an absolute change of the objective between iterations (scipy default
        # ftol = 1e-6); the distance to the optimum observed on the repaired code is up to ~2e-5
        atol += 1e-4
    # 3. not worse than the start
    if admissible(p0):
        f0 = obj_impl(p0)
        if not fp <= f0 * (1 + 1e-9) + atol:
            bad.append(("residual_le_start", f"residual {fp!r} at the result > {f0!r} at the start parameters"))
            info.setdefault("gap", {})["residual_le_start"] = fp / max(f0 + atol, 1e-300)
    else:
        info["start_inadmissible"] = True
    # 4. nearby admissible perturbations
    worst = None
    dirs = []
    for j in range(npar):
        for s in (1.0, -1.0):
            e = np.zeros(npar)
            e[j] = s
            dirs.append(e)
    for _ in range(1):
        for a, b in itertools.combinations(range(npar), 2):
            for sa, sb in ((1, 1), (1, -1), (-1, 1), (-1, -1)):
                e = np.zeros(npar)
                e[a], e[b] = sa, sb
                dirs.append(e)
    nadm = 0
    # with finite bounds curve_fit uses 'trf', which stagnates at a relative distance ~1e-4 from an
    # optimum that lies on a bound; "nearby" is therefore 1e-3..1e-1 there and 1e-4..1e-1 otherwise
    rels = (1e-1, 1e-2, 1e-3) if (case["bounds"] is not None and cons is None) else (1e-1, 1e-2, 1e-3, 1e-4)
    for rel in rels:
        for e in dirs:
            q = p + rel * e * np.maximum(1.0, np.abs(p))
            if not admissible(q):
                continue
            nadm += 1
            fq = obj_impl(q)
            if np.isfinite(fq) and fq * (1 + (OPT_RTOL if linear else 100 * OPT_RTOL)) + atol < fp:
                if worst is None or fq < worst[0]:
                    worst = (fq, list(q))
    info["perturbations"] = nadm
    if worst is not None:
        bad.append(("residual_le_admissible_perturbation",
                    f"residual {fp!r} at the result {list(p)} > {worst[0]!r} at the admissible nearby point {worst[1]}"))
        info.setdefault("gap", {})["residual_le_admissible_perturbation"] = fp / max(worst[0] + atol, 1e-300)
    # 5./6. linear shapes: exact rational reference
    if linear:
        unit = np.eye(npar)
        rows_f = np.column_stack([f(x, *unit[j]) for j in range(npar)])
        zero = f(x, *np.zeros(npar))
        info["linear_hyp_ok"] = bool(np.all(zero == 0.0))
        rows = [[fr(v) for v in r] for r in rows_f]
        yq = [fr(v) for v in y]
        info["rows"] = rows_f
        if sigma is not None and np.any(sigma == 0):
            return bad, info
        w_impl = [Fraction(1) / (fr(s) ** 2) for s in sigma] if sigma is not None else [Fraction(1)] * len(y)
        sol = exact_lsq(rows, yq, w_impl)
        info["exact"] = sol
        info["w_impl"] = w_impl
        if sol is not None:
            solf = np.array([float(v) for v in sol])
            inactive = cons is None and in_bounds(solf) and (case["bounds"] is None or all(
                (lo is None or lo < v - 1e-3 * (1 + abs(v))) and (hi is None or v + 1e-3 * (1 + abs(v)) < hi)
                for v, (lo, hi) in zip(solf, case["bounds"])))
            info["inactive"] = inactive
            if inactive:
                fs = obj_impl(solf)
                # parameter tolerance from the conditioning: excess residual = d' M d, M = A' W A
                wf = np.array([float(v) for v in w_impl])
                ev = np.linalg.eigvalsh((rows_f * wf[:, None]).T @ rows_f)
                lam = float(ev[0])
                info["cond"] = float(ev[-1] / max(lam, 1e-300))
                # curve_fit also stops on an absolute gradient norm (gtol = 1e-8): excess <= gtol^2 / lambda_min
                gexc = 10 * npar * 1e-16 / max(lam, 1e-300)
                ptol = 1e-6 * (1 + float(np.max(np.abs(solf)))) + 10 * np.sqrt((1e-7 * (fs + atol) + gexc) / max(lam, 1e-300))
                info["excess"] = (fp - fs) / (fs + atol)
                if info["cond"] > 1e7:
                    info["ill_conditioned"] = True  # "unique solution" is numerically meaningless
                elif not (bool(np.all(np.abs(p - solf) <= ptol)) and fp <= fs * (1 + 1e-6) + atol + gexc):
                    bad.append(("linear_shape_is_least_squares_solution",
                                f"parameters {list(p)} (residual {fp!r}) but the exact least-squares solution is "
                                f"{list(solf)} (residual {fs!r})"))
            # exact constrained optimum for one active constraint on a single parameter (affine shape)
            if cons is not None and case["shape"] == "linear2" and case["bounds"] is None \
                    and len(cons["items"]) == 1 and sorted(map(abs, cons["items"][0]["coef"])) == [0.0, 1.0]:
                it = cons["items"][0]
                if cons_vals(solf)[0] < 0:  # active at the unconstrained optimum
                    info["constraint_active"] = True
                    j = [abs(c) for c in it["coef"]].index(1.0)
                    fixed = fr(it["rhs"]) / fr(it["coef"][j])
                    o = 1 - j
                    rest = exact_lsq([[r[o]] for r in rows], [yy - fixed * r[j] for yy, r in zip(yq, rows)], w_impl)
                    q = [None, None]
                    q[j], q[o] = float(fixed), float(rest[0])
                    fq = obj_impl(np.array(q))
                    if not fp <= fq * (1 + 1e-5) + atol:
                        bad.append(("residual_le_admissible_perturbation",
                                    f"residual {fp!r} at the result {list(p)} > {fq!r} at the exact constrained optimum {q}"))
                        info.setdefault("gap", {}).setdefault("residual_le_admissible_perturbation", fp / max(fq + atol, 1e-300))
        # documented weight semantics: sum_i w_i * r_i^2 with w = weights(x, y)
        if sigma is not None and len(set(impl["w"])) > 1 and cons is None and all(v > 0 for v in impl["w"]):
            w_doc = [fr(v) for v in impl["w"]]
            sol_doc = exact_lsq(rows, yq, w_doc)
            if sol_doc is not None and in_bounds([float(v) for v in sol_doc]):
                d_res = float(exact_sse(rows, yq, w_doc, [fr(v) for v in p]))
                d_opt = float(exact_sse(rows, yq, w_doc, sol_doc))
                if not d_res <= d_opt * (1 + 1e-6) + 1e-12 * float(sum(wi * yy * yy for wi, yy in zip(w_doc, yq))):
                    bad.append(("weighted_residual_minimal_with_documented_weights",
                                f"weighted squared residual sum_i w_i r_i^2 (w = weights(x, y)) is {d_res!r} at the "
                                f"result {list(p)} but {d_opt!r} at {[float(v) for v in sol_doc]}"))
    return bad, info


OPT_RTOL = 1e-5  # relative slack on squared residuals granted to the optimisers (x100 for non-linear shapes: flat valleys such as b/(1+c*x) ~ (b/c)/x)


def gap_class(ratio):
    """coarse class of residual(result) / residual(reference point)"""
    for lim, name in ((2.0, "at most 2x"), (100.0, "2x to 100x")):
        if ratio <= lim:
            return name
    return "more than 100x"


def slsqp_nonlinear_where(shape, ratio, linear=False):
    """known-finding class of the SLSQP path (on the unchanged code: shapes non-linear in their parameters and the badly
    scaled cubic polynomial): one signature per shape and gap class, so that a failure on another shape or with a gap
    of another size is reported as a violation"""
    return (f"constraints declared (SLSQP path); shape {shape} ({'linear' if linear else 'non-linear'} in its parameters); "
            f"residual at the result {gap_class(ratio)} the residual at the reference point")


WEIGHTS_WHERE = "weights callable with non-constant positive weights; shape linear in its parameters"


def process_fits(ck, cases):
    impls, lines = [], []
    for c in cases:
        impl = run_fit_impl(c)
        impls.append(impl)
        lines.append(dispatch_model_line(c, impl.get("w")))
    answers = ck.driver.run(lines)
    cert_lines, cert_meta = [], []
    n_slsqp_nl, slsqp_nl_failed = 0, []
    for case, impl, ans in zip(cases, impls, answers):
        bad, info = fit_oracle(case, impl)
        if case["constraints"] is not None and not impl["linear"] and "popt" in impl:
            n_slsqp_nl += 1
            if any(b[0] in ("residual_le_start", "residual_le_admissible_perturbation") for b in bad):
                slsqp_nl_failed.append(case)
        nontrivial = "popt" in impl and len(case["x"]) >= 3
        ck.case({k: v for k, v in case.items()}, nontrivial=nontrivial,
                sample=(case.get("gen") == "random" and case["shape"] == "exp3" and case["bounds_mode"] == "active"
                        and case["weights"] == "y"))
        ck.count("fit:shape=" + case["shape"])
        ck.count("fit:bounds=" + case.get("bounds_mode", "?"))
        ck.count("fit:weights=" + str(case["weights"]))
        ck.count("fit:constraints=" + case.get("cons_mode", "?"))
        ck.count("fit:optimiser=" + (impl["call"][1] if len(impl["call"]) > 1 else impl["call"][0]))
        ck.count("fit:start-values-via=" + case.get("p0_via", "assign"))
        ck.count("fit:y-passed-as=" + case.get("y_as", "ndarray"))
        if case["bounds"] is not None:
            ck.count("fit:bounds-form=" + case.get("bounds_form", "tuples"))
            if case["constraints"] is not None:
                ck.count("fit:constraints+bounds=" + case.get("bounds_mode", "?"))
                if info.get("on_bound"):
                    ck.count("fit:constraints+bounds:result-on-a-declared-bound")
        if info.get("fit_failed"):
            ck.count("fit:optimiser-raised")
        if info.get("constraint_active"):
            ck.count("fit:constraint-active-at-unconstrained-optimum")
        if info.get("start_inadmissible"):
            ck.count("fit:start-inadmissible")
        if info.get("ill_conditioned"):
            ck.count("fit:linear-ill-conditioned(cond > 1e7, exact comparison skipped)")
        if info.get("inactive"):
            ck.count("fit:linear-inactive-bounds(exact reference compared)")
        for pred, detail in bad:
            where = WEIGHTS_WHERE if pred == "weighted_residual_minimal_with_documented_weights" else None
            if pred in ("residual_le_start", "residual_le_admissible_perturbation") and case["constraints"] is not None:
                where = slsqp_nonlinear_where(case["shape"], info.get("gap", {}).get(pred, float("inf")), impl["linear"])
                if os.environ.get("C14_COLLECT"):
                    print("COLLECT", json.dumps(fit_sig(pred, where)), case.get("bounds_mode"), case.get("cons_mode"),
                          info.get("gap", {}).get(pred), flush=True)
            ck.fail(fit_sig(pred, where), case, detail)
        real_bad = [b for b in bad if b[0] != "weighted_residual_minimal_with_documented_weights"]
        if impl["call"] != ans.split() or not impl["call_args_ok"]:
            d = f"optimiser call impl={impl['call'][:14]} args_ok={impl['call_args_ok']} model={ans.split()[:14]}"
            if real_bad:
                ck.count("divergence_with_oracle_failure")
            else:
                ck.diverge("dispatch", case, d)
        # Lean certificate for the exact reference of linear shapes
        if info.get("exact") is not None and "rows" in info:
            ck.hyp_checked += 1
            if not info["linear_hyp_ok"]:
                ck.diverge("linear-shape-hypothesis", case, "f(x; 0) != 0")
            n = impl["npar"]
            sig = impl.get("w") if (case["weights"] and case["constraints"] is None) else None
            toks = ["RUN", "lsqcert", str(n), str(len(case["x"]))]
            for i in range(len(case["x"])):
                toks += ["-" if sig is None else str(f2b(sig[i])), str(f2b(case["y"][i]))]
                toks += [str(f2b(v)) for v in info["rows"][i]]
            toks += [rat_tok(v) for v in info["exact"]]
            cert_lines.append(toks)
            cert_meta.append((case, info, "cert"))
            if case["shape"] == "linear2":
                toks = ["RUN", "affine", str(len(case["x"]))]
                for i in range(len(case["x"])):
                    toks += ["-" if sig is None else str(f2b(sig[i])), str(f2b(case["x"][i])), str(f2b(case["y"][i]))]
                cert_lines.append(toks)
                cert_meta.append((case, info, "affine"))
    # the known class of the SLSQP path on non-linear shapes is rare on the unchanged code (about 0.4 % of such fits
    # over 35000 sampled ones; 3 % is more than 7 times that): a higher rate is not the known finding
    ck.count("fit:slsqp-nonlinear-fits", n_slsqp_nl)
    ck.count("fit:slsqp-nonlinear-fits:residual-clause-failed", len(slsqp_nl_failed))
    if len(slsqp_nl_failed) > max(4, 0.03 * n_slsqp_nl):
        ck.fail(fit_sig("slsqp_nonlinear_residual_failure_rate"), slsqp_nl_failed[0],
                f"{len(slsqp_nl_failed)} of {n_slsqp_nl} constrained fits of shapes non-linear in their parameters end "
                f"above the start residual or above a nearby admissible point; on the unchanged code this happens in about "
                f"0.4 % of such fits (the case is the first of them)")
    if cert_lines:
        for (case, info, kind), ans in zip(cert_meta, ck.driver.run(cert_lines)):
            t = ans.split()
            rows = [[fr(v) for v in r] for r in info["rows"]]
            sse = exact_sse(rows, [fr(v) for v in case["y"]], info["w_impl"], info["exact"])
            if kind == "cert":
                ck.count("lean:normal-equation-certificates")
                if t[:2] != ["OK", "1"] or tok_rat(t[2]) != sse:
                    ck.diverge("lsq-certificate", case, f"Lean rejects the exact reference solution: {ans[:200]}")
            else:
                ck.count("lean:affineLsq-recomputed")
                if t[0] != "OK" or [tok_rat(t[1]), tok_rat(t[2])] != list(info["exact"]) or tok_rat(t[3]) != sse:
                    ck.diverge("affineLsq", case, f"Lean closed form {ans[:200]} vs harness {info['exact']}")


def fit_cases(rng, thorough):
    reps = 20 if thorough else 1
    for _ in range(reps):
        for shape in LINEAR_SHAPES + NONLINEAR_SHAPES:
            for bm in ("none", "inactive", "active"):
                for w in (None, "y", "x", "const", "1/y", "y^2"):
                    if w in ("x", "const", "1/y", "y^2") and rng.integers(0, 3) and not thorough:
                        continue
                    yield gen_fit_case(rng, shape, bm, w, "none")
            for cm in ("dict-active", "dict-inactive", "list-active", "list-inactive"):
                for bm in ("none", "inactive", "active"):
                    yield gen_fit_case(rng, shape, bm, None, cm)
            yield gen_fit_case(rng, shape, "none", "y", "dict-active")
    # extra affine cases: the exact constrained optimum is known
    for _ in range(60 if thorough else 12):
        yield gen_fit_case(rng, "linear2", "none", None, str(rng.choice(["dict-active", "list-active"])))


def corpus_cases():
    out = []
    d = os.path.join(core.VERIF, "corpus", "C14")
    for fn in sorted(glob.glob(os.path.join(d, "*.json"))):
        c = json.load(open(fn))
        c["gen"] = "corpus:" + os.path.basename(fn)
        out.append(c)
    return out


# ---------------------------------------------------------------------------


def main(ck):
    rng = np.random.default_rng(ck.seed)
    thorough = ck.tier == "thorough"
    ck.rule = (
        "corpus witnesses first; protocol histories (a history = public fit calls (function, round), every round with "
        "its own pairs): every labelled DAG (conditioners of h among 0..h-1, i.e. every "
        "DAG shape with every construction-compatible declaration order) with <= 3 functions x every call sequence "
        "of length <= 4 and every pair of one-round orders (fit + re-fit on new pairs), all 64 DAGs with 4 functions x "
        "all 24 one-round orders, two rounds complete for chain-4/diamond (and for all 64 DAGs in the thorough tier, "
        "sampled otherwise), swapped keyword order, a conditioner bound twice; 700 (thorough 20000) random round "
        "histories on chains of 2-5, diamonds (+tails), a conditioner bound twice, random DAGs with 2-6 functions: 1-3 "
        "rounds, each a random permutation (= order of the parameters dict; sometimes a function twice) or a random "
        "proper subset (partial round); random DAGs with 5-7 functions and "
        "histories up to length 27 with rounds 0-2 in any order; ConditionalDistribution.fit (Normal: 2 parameters, "
        "Weibull: 3 parameters; chain, fork-join, conditioner bound twice) with every order of the parameters dict, "
        "1-3 fits on different data, also with bounds + weights callable on every function (the callable then receives y "
        "as a Python list); decorated histories: named DAGs whose functions carry inactive bounds (tuples / lists, float / "
        "int entries) and a weights callable (y, x, 1/y), one and two rounds, y as ndarray or list; the chained pair of "
        "the predefined OMAE2020 model (alpha3 with d_of_x=logistics4: bounds, weights=y, integer signature defaults; "
        "bound a >= 0 of the chained function active in half of the cases) in both call orders, 1-2 rounds; numeric: 12 "
        "shapes x bounds none/inactive/active x weights kinds x constraints dict/list active/inactive (constraints also "
        "with active bounds) x start values assigned / signature defaults / partial defaults x bounds as tuples / lists / "
        "Python ints x y as ndarray / list, 3-20 points. A history is "
        "non-trivial if it has >= 2 calls and calls a function that has a conditioner; a fit case if the fit "
        "returned and has >= 3 points; distinct by SHA1 of the case"
    )
    ck.assumptions = [
        "a `_fit` execution is modelled as an event (version bump) with its inputs (epoch of the pairs, start-value "
        "token, number of the public call); its numerical result is checked by the oracle, not by the model",
        "the x/y objects that reach the optimiser are mapped to the public call that supplied them by object identity "
        "(fallback: equal content); every public call of the harness hands over fresh array objects and every round "
        "has different values",
        "start values are mapped to a token by exact equality with the parameter values after construction (0) or "
        "with the result of an earlier fit of the same function (k)",
        "no exception is raised inside a cascade of callbacks (none was observed; an exception is reported as violation)",
        "constraint dicts are identified by object identity at the optimiser call",
        "linear shapes: design rows are f(x; e_j) evaluated by the real callable; exactness is relative to these doubles",
    ]
    ck.partial = {
        "optimality_partial": "residual <= residual(start) and <= residual at admissible perturbations "
        "(relative 1e-1..1e-4 along axes and pairs of axes) is observed on the real optimiser output for every "
        "explored case; not a theorem (curve_fit / SLSQP are scipy's)",
        "in_bounds_and_constraints_observed": "bounds exactly, constraints >= -(1e-5 + 1e-6*scale) on the returned "
        "parameters (SLSQP accepts a summed violation below 10*acc, acc = 1e-6)",
        "weights_with_constraints_not_covered": "a weights callable together with declared constraints is refused by the "
        "code (NotImplementedError, fit_constrained_function supports 'lsq' only): for this combination of the "
        "quantifier no fit exists, so no clause of the property is checked there; the refusal itself is compared with "
        "the model's dispatch (constrained_weighted_refused)",
        "slsqp_nonlinear_shapes": "constrained fits of shapes non-linear in their parameters: residual clauses fail in "
        "about 0.4 % of the fits on the unchanged code (known findings, one signature per clause, shape and size class "
        "of the gap); other shapes / size classes, or a rate above max(4, 3 %) of such fits in a run, are violations",
        "start_values": "the start parameters are the defaults declared in the shape's signature (1 where there is "
        "none): observed on the constructed object and at the optimiser call",
        "linear_shapes": "normal_equations_minimise / affineLsq_minimises are theorems; that curve_fit returns that "
        "solution (rtol 1e-5) is observed",
    }
    pool = None
    if thorough:
        import multiprocessing as mp

        pool = mp.get_context("fork").Pool(8)
    try:
        corpus = corpus_cases()
        process_histories(ck, [c for c in corpus if c["kind"] == "history"])
        process_fits(ck, [c for c in corpus if c["kind"] == "fit"])
        batch = []
        for c in history_cases(ck, rng, thorough):
            batch.append(c)
            if len(batch) >= 8000:
                process_histories(ck, batch, pool)
                batch = []
        process_histories(ck, batch, pool)
        process_conddist(ck)
        process_chainfit(ck, list(chainfit_cases(rng, thorough)))
        process_cbounds(ck, rng, 2000 if thorough else 200)
        process_fits(ck, list(fit_cases(rng, thorough)))
    finally:
        if pool is not None:
            pool.close()
    ck.extra["exhaustive"] = False
    ck.extra["protocol_exhaustive"] = (
        "all labelled DAGs with <= 3 functions: all call sequences of length <= 4 and all two-round orders; "
        "all labelled DAGs with 4 functions: all one-round orders"
        + ("; all two-round orders" if thorough else "; two-round orders complete for chain-4 and diamond only")
    )


def replay(ck, payload):
    case = payload.get("case", payload)  # a replay file or a bare corpus case
    ok = True
    if case["kind"] == "history":
        st = run_history_impl(case)
        for pred, detail in st["oracle"]:
            print("oracle:", pred, detail)
            ok = False
        print("impl log:", st["log"], "may_fit:", st["may"], "params:", st["params"])
        print("impl _fit inputs [function, data epoch, start-value token, public call]:", st["ev"])
        if ck.driver:
            ans, ans_stale = ck.driver.run([history_model_line(case), history_model_line(case, "protostale")])
            m = parse_proto(ans, case["decls"])
            print("model _fit inputs:", m.get("ev"))
            print("correspondence:", compare_history(st, m))
            ms = parse_proto(ans_stale, case["decls"])
            if st["ev"] != m.get("ev") and [e[:2] for e in st["ev"]] == [e[:2] for e in ms.get("ev", [])]:
                print("note: the observed (function, data epoch) sequence is the one of the model variant "
                      "`fitCallStale` (pairs stored only when the fit is deferred), see "
                      "C14.stale_variant_refits_old_pairs")
    elif case["kind"] == "conddist":
        st, decls, ops = run_conddist(case)
        for pred, detail in st["oracle"]:
            print("oracle:", pred, detail)
            ok = False
        print("impl log:", st["log"])
        print("impl _fit inputs [function, data epoch, start-value token, public call]:", st["ev"])
    elif case["kind"] == "chainfit":
        impl = run_chainfit(case)
        print("impl:", impl)
        for pred, detail in chainfit_oracle(case, impl):
            print("oracle:", pred, detail)
            ok = False
    elif case["kind"] == "cbounds":
        for pred, detail in oracle_cbounds(case):
            print("oracle:", pred, detail)
            ok = False
    else:
        impl = run_fit_impl(case)
        bad, info = fit_oracle(case, impl)
        print("impl:", {k: v for k, v in impl.items() if k in ("popt", "err", "call_args_ok")})
        for pred, detail in bad:
            print("oracle:", pred, detail)
            ok = False
        if ck.driver:
            ans = ck.driver.run([dispatch_model_line(case, impl.get("w"))])[0]
            print("dispatch correspondence:", "equal" if ans.split() == impl["call"] else f"impl={impl['call']} model={ans}")
    return ok
