"""
C07 - Samples follow the model they are drawn from and are reproducible by seed.

Correspondence
  (A) doubles with inverse-transform leaves: the harness re-creates default_rng(seed) and
      replays the same uniform() calls; joint samples of the real GlobalHierarchicalModel are
      bit-identical to the Lean `sampleRows` on that stream (2-D..4-D, every structure, n in
      {1,2,17,1000,...}; random_state int / Generator).
  (B) `_get_rvs_size` and the number of draws of conditional dimensions vs the Lean `rvsSize` /
      `condDrawCount` (constant dependence functions included).
Oracle / partial (runtime, shipped families): shape, same seed => identical, different seeds =>
different, PIT values of every dimension ~ U(0,1) and pairs of PIT columns ~ product measure
within distribution-free bounds at error probability 1e-12 per comparison.
  (D) joint models over EVERY shipped family (Normal, von Mises with vector parameters through
      ConditionalDistribution - compared modulo 2 pi -, LogNormalNormFit, ScipyDistribution subclasses, ...):
      PIT with independently evaluated per-row parameters; n in {1,2,3} (shape, reproducibility; 3-D chains);
      random_state None / int / Generator; seed pairs (s, t); second model object; object re-use.
  (E) univariate small n, random_state=None, seed pairs.
  (F) models FITTED to data (predefined descriptions, 2-D and 3-D), then sampled: per-row conditional law
      evaluated from the fitted parameters the model reports.
"""
import math
import warnings

import numpy as np

from core import f2b, b2f
import doubles
import models

DELTA = 1e-12


def dkw_eps(n, delta=DELTA):
    return math.sqrt(math.log(2.0 / delta) / (2.0 * n))


def ks_uniform(u):
    u = np.sort(np.asarray(u, dtype=float))
    n = len(u)
    i = np.arange(1, n + 1)
    return float(max(np.max(i / n - u), np.max(u - (i - 1) / n)))


def seed_partners(rng, seed):
    """seeds t != seed with 0 <= t < 2**32 (valid for the legacy RandomState scipy builds from an int): the
    neighbour, one with a single far bit flipped, an unrelated one"""
    out = {seed + 1 if seed < 2**32 - 1 else seed - 1, seed ^ (1 << int(rng.integers(1, 32))),
           int(rng.integers(0, 2**32))}
    out.discard(seed)
    return sorted(out)


def pit_failures(ck, U, conds, x=None):
    """distribution-free tests of a matrix of PIT values: every column ~ U(0,1) (DKW), pairs of columns ~ product
    measure on a 4x4 partition (Hoeffding per cell, union over the 16 cells). With the sample `x`: the PIT values of a
    conditional dimension are U(0,1) GIVEN the conditioning value of their row, hence also within every group of rows
    selected by the conditioning column alone: DKW within the quartile groups of that column."""
    n, n_dim = U.shape
    bad = []
    eps = dkw_eps(n)
    if not np.all(np.isfinite(U)):
        return [("drawn_from_conditional_given_same_row", "PIT values are not finite")]
    if x is not None:
        for i in range(n_dim):
            if conds[i] is None:
                continue
            order = np.argsort(x[:, conds[i]], kind="stable")
            for q, rows in enumerate(np.array_split(order, 4)):
                d = ks_uniform(U[rows, i])
                ck.hyp_checked += 1
                if d > dkw_eps(len(rows)):
                    bad.append(("drawn_from_conditional_given_same_row",
                                f"dimension {i}, rows in group {q} of the conditioning column {conds[i]} (values "
                                f"{x[rows[0], conds[i]]:.4g}..{x[rows[-1], conds[i]]:.4g}): PIT KS {d:.4f} > "
                                f"{dkw_eps(len(rows)):.4f}"))
                    break
    for i in range(n_dim):
        d = ks_uniform(U[:, i])
        ck.hyp_checked += 1
        if d > eps:
            bad.append(("drawn_from_conditional_given_same_row",
                        f"dimension {i} (conditional on {conds[i]}): PIT KS {d:.4f} > {eps:.4f}"))
    t = math.sqrt(math.log(2 * 16 / DELTA) / (2 * n))
    for i in range(n_dim):
        for k in range(i + 1, n_dim):
            H, _, _ = np.histogram2d(U[:, i], U[:, k], bins=4, range=[[0, 1], [0, 1]])
            dev = float(np.max(np.abs(H / n - 1 / 16)))
            ck.hyp_checked += 1
            if dev > t + 2 * eps:
                bad.append(("rosenblatt_columns_independent", f"dims {i},{k}: cell deviation {dev:.4f} > {t + 2*eps:.4f}"))
    return bad


def none_failures(draw, shape):
    """random_state=None: requested shape, finite values, two draws differ (fresh entropy each time)"""
    a = np.asarray(draw(None))
    b = np.asarray(draw(None))
    if a.shape != shape or b.shape != shape:
        return [("none_shape", f"random_state=None: shape {a.shape} / {b.shape}, expected {shape}")], a
    if not (np.all(np.isfinite(a)) and np.all(np.isfinite(b))):
        return [("none_finite", "random_state=None: sample contains non-finite values")], a
    if np.array_equal(a, b):
        return [("none_draws_differ", f"two draws with random_state=None are identical: {a.ravel()[:4].tolist()}")], a
    return [], a


def reproducibility_failures(rng, build, n, seed, first):
    """`first` = build().draw_sample(n, random_state=seed) drawn by the caller on another object. Checks on a SECOND
    model object: an earlier draw (other seed, other size) does not influence a later seeded draw; identically
    seeded Generators give identical samples on two different objects; int seed repeats; seed pairs (s, t) differ."""
    bad = []
    m1, m2 = build(), build()
    m1.draw_sample(n + 1, random_state=seed ^ 5)          # earlier draws on the same object: another size,
    m1.draw_sample(n, random_state=seed ^ 3)              # the same size with another seed
    again = np.asarray(m1.draw_sample(n, random_state=seed))
    if not np.array_equal(first, again, equal_nan=True):
        bad.append(("reproduces_on_second_object_after_earlier_draw",
                    f"int seed {seed}: draw on a second model object after an earlier draw differs from the first draw"))
    g1 = np.asarray(m1.draw_sample(n, random_state=np.random.default_rng(seed)))
    g2 = np.asarray(m2.draw_sample(n, random_state=np.random.default_rng(seed)))
    if g1.shape != first.shape or not np.array_equal(g1, g2, equal_nan=True):
        bad.append(("generator_reproduces_across_objects",
                    f"identically seeded Generators (seed {seed}) on two model objects give different samples"))
    for t in seed_partners(rng, seed):
        if np.array_equal(first, np.asarray(m2.draw_sample(n, random_state=t))):
            bad.append(("different_seeds_differ", f"seeds {seed} and {t} give identical samples"))
            break
    return bad


# --------------------------------------------------------------------------- (A)

def gen_exact_cases(rng, n_cases, big):
    for k in range(n_cases):
        m = doubles.random_model(rng)
        if k % 7 == 3:
            # a conditional dimension whose parameters are ALL fixed (accepted by virocon: "parameters": {}): still one
            # independent draw per row
            for i in range(m.n_dim):
                if m.cond[i] is not None:
                    m.s[i] = doubles.Dep("fixed", [float(rng.uniform(0.5, 2.0))])
                    m.l[i] = doubles.Dep("fixed", [float(rng.choice([0.0, 0.25]))])
                    break
        n = int(rng.choice([1, 2, 3, 17, 100, 1000] + ([20000] if big else [])))
        # boundary seeds (0 is falsy in Python, 2**32-1 the largest legacy seed) are drawn on purpose
        seed = int(rng.choice([0, 0, 1, 2**32 - 1])) if k % 4 == 0 else int(rng.integers(0, 2**31))
        yield {"part": "A", "model": m.describe(), "n": n, "seed": seed,
               "rs": str(rng.choice(["int", "generator", "npint"]))}


def structure_cases(rng):
    for n_dim in (2, 3, 4):
        for cond in doubles.all_structures(n_dim):
            m = doubles.random_model(rng, n_dim=n_dim, cond=cond)
            yield {"part": "A", "model": m.describe(), "n": 5, "seed": int(rng.integers(0, 2**31)), "rs": "int",
                   "gen": "all-structures"}


def _make_rs(kind, seed):
    """random_state as the caller writes it: a Python int, a numpy integer scalar (what np.arange / rng.integers /
    SeedSequence.generate_state hand out) or a Generator"""
    if kind == "int":
        return seed
    if kind == "npint":
        return np.int64(seed)
    return np.random.default_rng(seed)


def process_exact(ck, case):
    desc = doubles.model_from_desc(case["model"])
    model = desc.build()
    n, seed = case["n"], case["seed"]
    rs = _make_rs(case["rs"], seed)
    got = np.asarray(model.draw_sample(n, random_state=rs), dtype=float)
    rng2 = np.random.default_rng(seed)
    stream = np.concatenate([rng2.uniform(size=n) for _ in range(desc.n_dim)])
    line = " ".join(["RUN", "sample"] + desc.tokens() + [str(n)] + [str(f2b(v)) for v in stream])
    ans = ck.driver.run([line])[0].split()
    ck.case(case, nontrivial=desc.n_dependent() >= 1 and n >= 2)
    ck.count("part=A")
    ck.count(f"A_n_dim={desc.n_dim}")
    ck.count("A_rs=" + case["rs"])
    bad = []
    if got.shape != (n, desc.n_dim):
        bad.append(("shape_n_by_ndim", f"shape {got.shape} expected {(n, desc.n_dim)}"))
    else:
        # oracle: Rosenblatt transform of the sample is the driving stream (exact leaves)
        U = stream.reshape(desc.n_dim, n).T
        for i in range(desc.n_dim):
            ci = desc.cond[i]
            for j in range(min(n, 50)):
                g = None if ci is None else float(got[j, ci])
                s = desc.s[i].value(g) if g is not None else desc.s[i].pars[0]
                l = desc.l[i].value(g) if g is not None else desc.l[i].pars[0]
                z = got[j, i] - l
                F = z / (z + s) if z > 0 else 0.0
                if abs(F - U[j, i]) > 1e-9:
                    bad.append(("drawn_from_conditional_given_same_row", f"row {j} dim {i}: F={F!r} u={U[j, i]!r}"))
                    break
            if bad:
                break
        again = np.asarray(model.draw_sample(n, random_state=seed))
        again_g = np.asarray(model.draw_sample(n, random_state=np.random.default_rng(seed)))
        if not np.array_equal(got, again if case["rs"] in ("int", "npint") else again_g):
            bad.append(("same_seed_reproduces", "repeating the call with the same seed gives a different sample"))
        other = np.asarray(model.draw_sample(n, random_state=seed + 1))
        if np.array_equal(other, again):
            bad.append(("different_seeds_differ", f"seeds {seed} and {seed+1} give identical samples"))
        # object re-use: after the draw with another seed the SAME object reproduces the first sample ...
        rs2 = _make_rs(case["rs"], seed)
        if not np.array_equal(got, np.asarray(model.draw_sample(n, random_state=rs2))):
            bad.append(("reproduces_after_earlier_draw_on_same_object", f"seed {seed} ({case['rs']})"))
        # ... and so does a second object; seed pairs beyond s/s+1
        if seed < 2**32:
            bad += reproducibility_failures(np.random.default_rng(seed), desc.build, n, seed, again)
            ck.count("A_second_object_and_seed_pairs")
    for pred, detail in bad:
        ck.fail({"entry": "GlobalHierarchicalModel.draw_sample", "predicate": pred}, case, detail)
    if ans[0] != "OK":
        if not bad:
            ck.diverge("joint-sampling", case, "model: " + " ".join(ans))
        return
    mv = np.array([b2f(v) for v in ans[2:]]).reshape(n, desc.n_dim)
    if not bad and not np.array_equal(mv.view(np.uint64), np.ascontiguousarray(got).view(np.uint64)):
        d = np.argwhere(mv != got)[0]
        ck.diverge("joint-sampling", case, f"row {d[0]} dim {d[1]}: impl {got[tuple(d)]!r} model {mv[tuple(d)]!r}")


# --------------------------------------------------------------------------- (B)

def process_rvs_size(ck, rng):
    from virocon.distributions import Distribution

    for _ in range(60):
        n = int(rng.integers(1, 50))
        k = int(rng.integers(1, 5))
        shapes = [None if rng.integers(0, 2) else int(rng.integers(1, 9)) for _ in range(k)]
        pars = [0.5 if s is None else np.full(s, 0.5) for s in shapes]
        got = Distribution._get_rvs_size(n, pars)
        toks = ["s" if s is None else f"v{s}" for s in shapes]
        ans = ck.driver.run([" ".join(["RUN", "rvssize", str(n)] + toks)])[0].split()
        want = n if ans[1] == "flat" else (int(ans[2]), int(ans[3]))
        case = {"part": "B", "n": n, "shapes": shapes}
        ck.case(case, nontrivial=any(s is not None for s in shapes), sample=False)
        ck.count("part=B")
        if got != want:
            ck.diverge("rvs-size", case, f"impl {got} model {want}")


def _const_a(x, a):
    return a


def _const_b(x, b=0.4):
    return b


def process_constant_dependence(ck, rng):
    """a conditional dimension whose dependence functions ignore x must still give one draw per row"""
    from virocon import (DependenceFunction, GlobalHierarchicalModel, LogNormalDistribution,
                         WeibullDistribution)

    for variant in ("all_constant", "one_constant"):
        a = DependenceFunction(_const_a)
        a.parameters = {"a": 1.2}
        if variant == "all_constant":
            b = DependenceFunction(_const_b)
            pars = {"mu": a, "sigma": b}
            raw = ["s", "s"]
        else:
            b = DependenceFunction(models._asym3)
            b.parameters = {"a": 0.2, "b": 0.5, "c": 0.3}
            pars = {"mu": a, "sigma": b}
            raw = ["s", "v7"]
        model = GlobalHierarchicalModel([
            {"distribution": WeibullDistribution(2.0, 1.5)},
            {"distribution": LogNormalDistribution(), "conditional_on": 0, "parameters": pars}])
        n = 7
        seed = int(rng.integers(0, 2**31))
        smp = np.asarray(model.draw_sample(n, random_state=seed))
        case = {"part": "B", "variant": "constant-dependence-" + variant, "n": n, "seed": seed}
        ck.case(case, nontrivial=True)
        ck.count("B_constant_dependence")
        distinct = len(set(smp[:, 1].tolist()))
        ans = ck.driver.run([" ".join(["RUN", "conddraws", str(n)] + raw)])[0].split()
        want = int(ans[1])
        if distinct != n:
            ck.fail({"entry": "GlobalHierarchicalModel.draw_sample", "predicate": "one_draw_per_row",
                     "input_class": "dependence functions returning a scalar for vector input"}, case,
                    f"{variant}: column 1 has {distinct} distinct values in {n} rows: {smp[:, 1].tolist()}")
        elif want != n:
            ck.diverge("cond-draw-count", case, f"model draws {want}, implementation {distinct}")


# --------------------------------------------------------------------------- (C) statistics

def univariate_families(rng):
    from virocon import (ExponentiatedWeibullDistribution, GeneralizedGammaDistribution,
                         LogNormalDistribution, NormalDistribution, VonMisesDistribution, WeibullDistribution)

    u = rng.uniform
    return [
        ("Weibull", WeibullDistribution(10 ** u(-0.3, 0.7), u(0.9, 3), float(rng.choice([0, 0.5])))),
        ("LogNormal", LogNormalDistribution(u(-0.3, 1.5), u(0.15, 0.7))),
        ("Normal", NormalDistribution(u(-2, 5), u(0.4, 2))),
        ("ExpWeibull", ExponentiatedWeibullDistribution(10 ** u(-0.3, 0.5), u(0.8, 2.5), u(0.7, 4))),
        ("GenGamma", GeneralizedGammaDistribution(u(0.8, 3), u(0.8, 2.5), u(0.3, 2))),
        ("VonMises", VonMisesDistribution(u(0.3, 4.0), u(0.5, 5.5))),
        ("VonMises", VonMisesDistribution(u(0.3, 4.0), u(-5.5, -0.5))),
        ("LogNormalNormFit", EXT["LogNormalNormFit"][0](u(2.0, 8.0), u(0.5, 2.0))),
        ("ScipyGamma", EXT["ScipyGamma"][0](u(0.8, 4.0), float(rng.choice([0.0, 0.5])), u(0.5, 2.0))),
        ("ScipyGumbel", EXT["ScipyGumbel"][0](u(-2.0, 5.0), u(0.5, 2.0))),
    ]


def univariate_from_case(case):
    return EXT[case["family"]][0](**case["parameters"])


def univariate_pit(name, dist, x):
    if name == "VonMises":
        # samples are wrapped; compare modulo 2 pi on the interval the cdf is defined on
        mu = dist.parameters["mu"]
        xx = np.mod(x - mu + np.pi, 2 * np.pi) + mu - np.pi
        return np.mod(np.asarray(dist.cdf(xx)), 1.0)
    return np.asarray(dist.cdf(x))


def process_univariate(ck, rng, n):
    for name, dist in univariate_families(rng):
        seed = int(rng.integers(0, 2**31))
        case = {"part": "C", "family": name, "parameters": {k: float(v) for k, v in dist.parameters.items()},
                "n": n, "seed": seed}
        process_univariate_case(ck, case, dist)


def process_univariate_case(ck, case, dist=None):
    name, n, seed = case["family"], case["n"], case["seed"]
    dist = univariate_from_case(case) if dist is None else dist
    eps = dkw_eps(n)
    ck.case(case, nontrivial=True, sample=False)
    ck.count("part=C-univariate")
    ck.count("C_family=" + name)
    x = np.asarray(dist.draw_sample(n, random_state=seed))
    bad = []
    if x.shape != (n,):
        bad.append(("univariate_shape", f"shape {x.shape} for n={n}"))
    else:
        d = ks_uniform(univariate_pit(name, dist, x))
        ck.hyp_checked += 1
        if not d <= eps:
            bad.append(("univariate_sample_matches_cdf", f"{name}: KS distance {d:.4f} > {eps:.4f} (n={n})"))
        g1 = np.asarray(dist.draw_sample(n, random_state=np.random.default_rng(seed)))
        g2 = np.asarray(dist.draw_sample(n, random_state=np.random.default_rng(seed)))
        if not (np.array_equal(x, np.asarray(dist.draw_sample(n, random_state=seed))) and np.array_equal(g1, g2)):
            bad.append(("same_seed_reproduces", f"{name}"))
        if np.array_equal(x, np.asarray(dist.draw_sample(n, random_state=seed + 1))):
            bad.append(("different_seeds_differ", f"{name}"))
        for t in seed_partners(np.random.default_rng(seed), seed):
            if np.array_equal(x, np.asarray(dist.draw_sample(n, random_state=t))):
                bad.append(("different_seeds_differ", f"{name}: seeds {seed} and {t} give identical samples"))
                break
        # random_state=None: shape, finiteness, two draws differ, and the draw follows the cdf
        nb, xn = none_failures(lambda r: dist.draw_sample(n, random_state=r), (n,))
        ck.count("C_random_state_none")
        if not nb:
            dn = ks_uniform(univariate_pit(name, dist, xn))
            ck.hyp_checked += 1
            if not dn <= eps:
                nb.append(("univariate_sample_matches_cdf", f"{name}, random_state=None: KS distance {dn:.4f} > {eps:.4f}"))
        bad += nb
    for pred, detail in bad:
        ck.fail({"entry": "Distribution.draw_sample", "predicate": pred, "family": name}, case, detail)


def joint_stat_case(rng, n):
    m = models.random_fam_model(rng, n_dim=int(rng.choice([2, 3])))
    seed = 0 if rng.integers(0, 3) == 0 else int(rng.integers(0, 2**31))
    return {"part": "C", "model": m.describe(), "n": n, "seed": seed}


def process_joint_stat(ck, case):
    m = models.fam_model_from_desc(case["model"])
    model = m.build()
    n, seed = case["n"], case["seed"]
    ck.case(case, nontrivial=m.n_dependent() >= 1, sample=False)
    ck.count("part=C-joint")
    with np.errstate(all="ignore"), warnings.catch_warnings():
        warnings.simplefilter("ignore")
        x = np.asarray(model.draw_sample(n, random_state=seed))
        bad = []
        if x.shape != (n, m.n_dim):
            bad.append(("shape_n_by_ndim", f"{x.shape}"))
        else:
            U = np.empty_like(x)
            for i in range(m.n_dim):
                ci = m.cond[i]
                U[:, i] = model.distributions[i].cdf(x[:, i]) if ci is None else \
                    model.distributions[i].cdf(x[:, i], given=x[:, ci])
            bad += pit_failures(ck, U, m.cond, x)
            g1 = np.asarray(model.draw_sample(n, random_state=np.random.default_rng(seed)))
            g2 = np.asarray(model.draw_sample(n, random_state=np.random.default_rng(seed)))
            if not (np.array_equal(x, np.asarray(model.draw_sample(n, random_state=seed))) and np.array_equal(g1, g2)):
                bad.append(("same_seed_reproduces", "same int seed / identically seeded Generator"))
            if np.array_equal(x, np.asarray(model.draw_sample(n, random_state=seed + 1))):
                bad.append(("different_seeds_differ", ""))
    for pred, detail in bad:
        ck.fail({"entry": "GlobalHierarchicalModel.draw_sample", "predicate": pred}, case, detail)


# --------------------------------------------------------------------------- (D) every family in joint sampling

def _ext_classes():
    from virocon.distributions import (LogNormalNormFitDistribution, ScipyDistribution, VonMisesDistribution)

    class GammaScipy(ScipyDistribution):
        scipy_dist_name = "gamma"

    class GumbelScipy(ScipyDistribution):
        scipy_dist_name = "gumbel_r"

    ext = {k: (models.V[v[0]], v[1]) for k, v in models.FAMILIES.items()}
    ext["VonMises"] = (VonMisesDistribution, ["kappa", "mu"])
    ext["LogNormalNormFit"] = (LogNormalNormFitDistribution, ["mu_norm", "sigma_norm"])
    ext["ScipyGamma"] = (GammaScipy, ["a", "loc", "scale"])
    ext["ScipyGumbel"] = (GumbelScipy, ["loc", "scale"])
    return ext


EXT = _ext_classes()
NEW_FAMS = ["Normal", "VonMises", "LogNormalNormFit", "ScipyGamma", "ScipyGumbel"]
REAL_VALUED = {"Normal", "VonMises", "ScipyGumbel"}                    # samples may be negative
LOCATION = {("Normal", "mu"), ("VonMises", "mu"), ("ScipyGumbel", "loc"), ("LogNormal", "mu")}   # any real value is valid
ALWAYS_FIXED = {("Weibull", "gamma"), ("ScipyGamma", "loc")}


def ext_base_value(rng, fam, par):
    u = rng.uniform
    table = {
        ("VonMises", "kappa"): lambda: u(0.5, 4.0),
        ("VonMises", "mu"): lambda: u(-3.0, 6.0),
        ("LogNormalNormFit", "mu_norm"): lambda: u(2.0, 8.0),
        ("LogNormalNormFit", "sigma_norm"): lambda: u(0.5, 2.0),
        ("ScipyGamma", "a"): lambda: u(0.8, 4.0),
        ("ScipyGamma", "loc"): lambda: float(rng.choice([0.0, 0.5])),
        ("ScipyGamma", "scale"): lambda: u(0.5, 2.0),
        ("ScipyGumbel", "loc"): lambda: u(-2.0, 5.0),
        ("ScipyGumbel", "scale"): lambda: u(0.5, 2.0),
    }
    if (fam, par) in table:
        return float(table[(fam, par)]())
    return models.base_value(rng, fam, par)


def strong_dep(rng, level, q25, q50, q75, location, real_given):
    """(kind, pars) of a dependence function that is positive, of the order of `level`, and changes by a factor of
    about 2..5 between the lower and the upper quartile (q25, q75) of the conditioning variable, so that a sampler which
    ignores, averages or permutes a vector parameter is visible in the within-group DKW test"""
    u = rng.uniform
    iqr = max(q75 - q25, 1e-3)
    if (location or not real_given) and q25 > 0 and rng.integers(0, 2):
        return "linear2", [level * u(0.2, 0.4), level * u(0.6, 1.2) / iqr]
    return "logistics4", [level * u(0.3, 0.6), level * u(0.6, 1.2), u(3.0, 6.0) / iqr, q50]


class ExtModel(models.FamModel):
    """FamModel over all shipped families (EXT); parameters of row j are evaluated here, directly from the
    dependence callables (vectorised), not by virocon"""

    def build(self):
        descs = []
        for d in self.dims:
            cls = EXT[d["family"]][0]
            if d["cond"] is None:
                descs.append({"distribution": cls(**{k: v[1] for k, v in d["params"].items()})})
            else:
                kw, pars = {}, {}
                for name, spec in d["params"].items():
                    if spec[0] == "fixed":
                        kw["f_" + name] = spec[1]
                    else:
                        df = models.V["DependenceFunction"](models.DEP_FUNCS[spec[1]])
                        df.parameters = dict(zip(df.parameters.keys(), spec[2]))
                        pars[name] = df
                descs.append({"distribution": cls(**kw), "conditional_on": d["cond"], "parameters": pars})
        return models.V["GlobalHierarchicalModel"](descs)

    def param_rows(self, i, g):
        vals = {}
        for name, spec in self.dims[i]["params"].items():
            if spec[0] == "fixed":
                vals[name] = spec[1]
            else:
                vals[name] = models.DEP_FUNCS[spec[1]](np.asarray(g, dtype=float), *spec[2])
        return vals

    def families(self):
        return [d["family"] for d in self.dims]


def pilot_quartiles(dims, c):
    """quartiles of column c of the model made of the dimensions defined so far (only used to SHAPE a test input; any
    outcome gives a valid model)"""
    try:
        with np.errstate(all="ignore"), warnings.catch_warnings():
            warnings.simplefilter("ignore")
            col = np.asarray(ExtModel(list(dims)).build().draw_sample(4000, random_state=0))[:, c]
        q = [float(v) for v in np.quantile(col, [0.25, 0.5, 0.75])]
        return q if np.all(np.isfinite(q)) and q[2] > q[0] else None
    except Exception:
        return None


def ext_model_from_desc(desc):
    return ExtModel(models.fam_model_from_desc(desc).dims)


def random_ext_model(rng, n_dim, cond=None, must=None, role=None):
    """random model over all families; `must` (a family) is placed in a random dimension, or, with role =
    "conditional-all-dependent", in a conditional dimension all of whose free parameters get a dependence function
    (every parameter reaches the family's sampler as a vector), or, with role = "conditioning", in a dimension that
    another one is conditional on. A dimension conditional on a real-valued variable only gets dependence functions
    that are defined (and positive where a positive parameter is required) for every real argument."""
    if cond is None:
        cond = doubles.random_structure(rng, n_dim)
        if all(c is None for c in cond):
            cond[n_dim - 1] = int(rng.integers(0, n_dim - 1))
    fams = [str(rng.choice(list(EXT))) for _ in range(n_dim)]
    pos = None
    if must is not None:
        # prefer a conditional dimension (vector parameters through ConditionalDistribution) two times out of three
        conditional = [i for i in range(n_dim) if cond[i] is not None]
        if role == "conditioning":
            pos = int(rng.choice(sorted({c for c in cond if c is not None})))
        elif role == "conditional-all-dependent" or (conditional and rng.integers(0, 3) > 0):
            pos = int(rng.choice(conditional))
        else:
            pos = int(rng.integers(0, n_dim))
        fams[pos] = must
    dims = []
    for i in range(n_dim):
        fam = fams[i]
        names = EXT[fam][1]
        params = {}
        if cond[i] is None:
            for nme in names:
                params[nme] = ("fixed", ext_base_value(rng, fam, nme))
        else:
            real_given = fams[cond[i]] in REAL_VALUED
            quart = None
            free = [nme for nme in names if (fam, nme) not in ALWAYS_FIXED]
            forced = str(rng.choice(free))
            for nme in names:
                level = ext_base_value(rng, fam, nme)
                if nme in free and (nme == forced or rng.integers(0, 3) > 0
                                    or (role == "conditional-all-dependent" and i == pos)):
                    if (fam, nme) in LOCATION:
                        kinds = ["linear2", "logistics4", "exp3"] if real_given else ["lnsquare2", "linear2", "power3"]
                        level = max(abs(level), 0.3)
                    else:
                        kinds = ["logistics4", "exp3"] if real_given else ["power3", "exp3", "asym3", "logistics4", "linear2"]
                    kind = str(rng.choice(kinds))
                    pars = models.random_dep_pars(rng, kind, level)
                    if role == "conditional-all-dependent" and i == pos:
                        if quart is None:
                            quart = pilot_quartiles(dims, cond[i])
                        if quart is not None:
                            kind, pars = strong_dep(rng, level, *quart, (fam, nme) in LOCATION, real_given)
                    params[nme] = ("dep", kind, [float(v) for v in pars])
                else:
                    params[nme] = ("fixed", level)
        dims.append({"family": fam, "cond": cond[i], "params": params})
    return ExtModel(dims)


def ext_pit(m, model, x):
    """Rosenblatt / PIT values of the sample rows; the parameters of row j are the dependence callables evaluated
    at the row's own conditioning value (computed here), handed to the family's cdf; von Mises modulo 2 pi"""
    U = np.empty_like(x)
    for i, d in enumerate(m.dims):
        tmpl = model.distributions[i] if d["cond"] is None else model.distributions[i].distribution
        vals = m.param_rows(i, None if d["cond"] is None else x[:, d["cond"]])
        xi = x[:, i]
        if d["family"] == "VonMises":
            mu = np.asarray(vals["mu"], dtype=float)
            xi = np.mod(xi - mu + np.pi, 2 * np.pi) + mu - np.pi
            U[:, i] = np.mod(np.asarray(tmpl.cdf(xi, **vals)), 1.0)
        else:
            U[:, i] = tmpl.cdf(xi, **vals)
    return U


def gen_ext_cases(rng, thorough):
    big = 400000 if thorough else 100000     # the within-group DKW test needs ~25000 rows per group to see a 30 % scale error
    # statistics: every family that the older parts do not sample jointly, in 2-D and 3-D, once as a conditional
    # dimension with EVERY free parameter dependent (vector parameters through ConditionalDistribution; von Mises
    # compared modulo 2 pi) and once as the conditioning variable of another dimension
    for k, fam in enumerate(NEW_FAMS * (3 if thorough else 1)):
        for role in ("conditional-all-dependent", "conditioning"):
            n_dim = 2 + (k + int(rng.integers(0, 2))) % 2
            m = random_ext_model(rng, n_dim, must=fam, role=role)
            yield {"part": "D", "model": m.describe(), "n": big, "seed": int(rng.integers(0, 2**32)),
                   "rs": str(rng.choice(["int", "generator"])), "must": fam, "role": role}
    # random_state=None with statistics
    for _ in range(6 if thorough else 2):
        m = random_ext_model(rng, int(rng.choice([2, 3])))
        yield {"part": "D", "model": m.describe(), "n": big, "seed": int(rng.integers(0, 2**32)), "rs": "none"}
    # small n: shape + reproducibility, shipped families, 3-D chains and random structures
    for k in range(90 if thorough else 30):
        n_dim = int(rng.choice([2, 3, 3]))
        cond = [None, 0, 1][:n_dim] if k % 3 == 0 else None
        m = random_ext_model(rng, n_dim, cond=cond, must=NEW_FAMS[k % len(NEW_FAMS)] if k % 2 else None)
        yield {"part": "D", "model": m.describe(), "n": int(rng.choice([1, 1, 2, 3])),
               "seed": int(rng.choice([0, 1, 2**32 - 1])) if k % 10 == 0 else int(rng.integers(0, 2**32)),
               "rs": str(rng.choice(["int", "generator", "none"])), "chain": cond is not None}


def ext_domain_status(m, x):
    """dimension by dimension (conditioning columns come first): "ok" if every row's parameters are finite, positive
    where required and every sampled value is finite; "out-of-domain" if some row's parameters (evaluated here from the
    finite conditioning values) leave the domain, e.g. exp() overflow far in a tail - then there is no law to compare
    with; otherwise the detail of the failure (finite, in-domain parameters but a non-finite sample value)"""
    for i, d in enumerate(m.dims):
        if d["cond"] is not None:
            for name, v in m.param_rows(i, x[:, d["cond"]]).items():
                v = np.asarray(v, dtype=float)
                if not np.all(np.isfinite(v)) or np.any(np.abs(v) > 1e6) or \
                        ((d["family"], name) not in LOCATION | ALWAYS_FIXED and np.any(v <= 0)):
                    return "out-of-domain"
        if not np.all(np.isfinite(x[:, i])):
            return f"dimension {i} ({d['family']}): non-finite values in the sample although every row's parameters are valid"
    return "ok"


def ext_failures(ck, m, model, n, seed, rs_kind):
    bad = []
    if rs_kind == "none":
        a = np.asarray(model.draw_sample(n, random_state=None))
        x = np.asarray(model.draw_sample(n, random_state=None))
        ok_shape = a.shape == (n, m.n_dim) and x.shape == (n, m.n_dim)
        if not ok_shape:
            bad.append(("none_shape", f"random_state=None: shape {a.shape} / {x.shape}, expected {(n, m.n_dim)}"))
        elif np.array_equal(a, x, equal_nan=True):
            bad.append(("none_draws_differ", f"two draws with random_state=None are identical: {a.ravel()[:4].tolist()}"))
    else:
        rs = seed if rs_kind == "int" else np.random.default_rng(seed)
        x = np.asarray(model.draw_sample(n, random_state=rs))
        ok_shape = x.shape == (n, m.n_dim)
        if not ok_shape:
            bad.append(("shape_n_by_ndim", f"shape {x.shape} expected {(n, m.n_dim)}"))
    if ok_shape:
        status = ext_domain_status(m, x)
        if status == "out-of-domain":
            ck.count("D_parameters_out_of_domain_on_sample")
        elif status != "ok":
            bad.append(("sample_finite", status))
        elif n >= 1000:
            bad += pit_failures(ck, ext_pit(m, model, x), m.cond, x)
            ck.count("D_statistics")
    if ok_shape and rs_kind != "none":
        first = x if rs_kind == "int" else np.asarray(model.draw_sample(n, random_state=seed))
        if rs_kind == "generator" and not np.array_equal(
                x, np.asarray(model.draw_sample(n, random_state=np.random.default_rng(seed))), equal_nan=True):
            bad.append(("same_seed_reproduces", f"identically seeded Generator ({seed}), same object"))
        if not np.array_equal(first, np.asarray(model.draw_sample(n, random_state=seed)), equal_nan=True):
            bad.append(("same_seed_reproduces", f"int seed {seed}, same object"))
        bad += reproducibility_failures(np.random.default_rng(seed), m.build, n, seed, first)
    return bad


def process_ext(ck, case):
    m = ext_model_from_desc(case["model"])
    n, seed, rs_kind = case["n"], case["seed"], case["rs"]
    ck.case(case, nontrivial=m.n_dependent() >= 1, sample=n <= 3 and rs_kind != "none")
    ck.count("part=D")
    ck.count("D_rs=" + rs_kind)
    ck.count("D_n=" + (str(n) if n <= 3 else "large"))
    ck.count(f"D_n_dim={m.n_dim}")
    if "role" in case:
        ck.count(f"D_statistics_of={case['must']}/{case['role']}")
    if case.get("chain"):
        ck.count("D_small_n_chain")
    for i, d in enumerate(m.dims):
        ck.count("D_family=" + d["family"] + ("/conditional" if d["cond"] is not None else ""))
        if d["cond"] is not None and m.dims[d["cond"]]["family"] in REAL_VALUED:
            ck.count("D_conditional_on_real_valued")
    bad = []
    with np.errstate(all="ignore"), warnings.catch_warnings():
        warnings.simplefilter("ignore")
        model = m.build()
        try:
            bad = ext_failures(ck, m, model, n, seed, rs_kind)
        except Exception as e:      # the models of this part have valid (finite, in-domain) parameters in every row
            bad = [("draw_sample_raises_on_valid_model", f"{type(e).__name__}: {str(e)[:200]}")]
    for pred, detail in bad:
        ck.fail({"entry": "GlobalHierarchicalModel.draw_sample", "predicate": pred}, case, detail)


# --------------------------------------------------------------------------- (E) univariate: small n, None, seed pairs

def process_univariate_small(ck, rng):
    for name, dist in univariate_families(rng):
        for n in (1, 2, 3):
            case = {"part": "E", "family": name, "parameters": {k: float(v) for k, v in dist.parameters.items()},
                    "n": n, "seed": int(rng.integers(0, 2**32))}
            process_univariate_small_case(ck, case, dist)


def process_univariate_small_case(ck, case, dist=None):
    dist = univariate_from_case(case) if dist is None else dist
    ck.case(case, nontrivial=True, sample=False)
    ck.count("part=E-univariate-small-n")
    ck.count(f"E_n={case['n']}")
    try:
        bad = univariate_small_failures(np.random.default_rng(case["seed"]), dist, case["n"], case["seed"])
    except Exception as e:
        bad = [("draw_sample_raises_on_valid_model", f"{type(e).__name__}: {str(e)[:200]}")]
    for pred, detail in bad:
        ck.fail({"entry": "Distribution.draw_sample", "predicate": pred, "family": case["family"]}, case, detail)


def univariate_small_failures(rng, dist, n, seed):
    bad = []
    x = np.asarray(dist.draw_sample(n, random_state=seed))
    if x.shape != (n,):
        return [("univariate_shape", f"shape {x.shape} for n={n}")]
    if not np.all(np.isfinite(x)):
        bad.append(("sample_finite", f"{x.tolist()}"))
    g1 = np.asarray(dist.draw_sample(n, random_state=np.random.default_rng(seed)))
    dist.draw_sample(n + 1, random_state=seed ^ 5)
    g2 = np.asarray(dist.draw_sample(n, random_state=np.random.default_rng(seed)))
    if not (np.array_equal(x, np.asarray(dist.draw_sample(n, random_state=seed))) and g1.shape == (n,)
            and np.array_equal(g1, g2)):
        bad.append(("same_seed_reproduces", f"n={n} seed={seed}"))
    for t in seed_partners(rng, seed):
        if np.array_equal(x, np.asarray(dist.draw_sample(n, random_state=t))):
            bad.append(("different_seeds_differ", f"n={n}: seeds {seed} and {t} give identical samples"))
            break
    nb, _ = none_failures(lambda r: dist.draw_sample(n, random_state=r), (n,))
    return bad + nb


# --------------------------------------------------------------------------- (F) sampling from a FITTED model

def _truth_sample(rng, n, which):
    """data to fit: numpy only (no virocon sampling involved)"""
    a, b, g = rng.uniform(2.0, 3.0), rng.uniform(1.4, 1.9), float(rng.choice([0.3, 0.5]))   # location > 0: the fitted location stays positive
    x0 = g + a * rng.weibull(b, size=n)
    mu = rng.uniform(0.8, 1.2) + rng.uniform(0.3, 0.5) * x0 ** 0.6
    sig = 0.05 + rng.uniform(0.15, 0.25) * np.exp(-0.2 * x0)
    tz = np.exp(mu + sig * rng.standard_normal(n))
    if which in ("OMAE2020_V_Hs", "chain_V_Hs_Tz"):
        x0 = 4.0 * x0                                        # wind-speed like (the slicer of that model is 2 wide)
        al = rng.uniform(0.4, 0.7) + rng.uniform(0.03, 0.06) * x0 ** 1.3
        be = rng.uniform(1.8, 2.2) + rng.uniform(1.0, 2.0) / (1.0 + np.exp(-0.4 * (x0 - rng.uniform(10.0, 14.0))))
    else:
        al = rng.uniform(1.5, 2.5) + rng.uniform(0.8, 1.2) * x0 ** 1.1
        be = rng.uniform(1.8, 2.2) + 0.2 * x0
    u2 = al * rng.weibull(1.0, size=n) ** (1.0 / be)
    if which in ("DNVGL_Hs_Tz", "OMAE2020_Hs_Tz"):
        return np.column_stack([x0, tz])
    if which in ("DNVGL_Hs_U", "OMAE2020_V_Hs"):
        return np.column_stack([x0, u2])
    if which == "fork_Hs_U_Tz":
        return np.column_stack([x0, u2, tz])
    # chain V -> Hs|V -> Tz|Hs
    mu3 = 1.0 + 0.4 * u2 ** 0.5
    return np.column_stack([x0, u2, np.exp(mu3 + 0.15 * rng.standard_normal(n))])


def _fit_descriptions(which):
    import virocon.predefined as P

    if which in ("DNVGL_Hs_Tz", "OMAE2020_Hs_Tz", "DNVGL_Hs_U", "OMAE2020_V_Hs"):
        dd, fd, _ = getattr(P, "get_" + which)()
        return dd, fd
    if which == "fork_Hs_U_Tz":
        d1, _, _ = P.get_DNVGL_Hs_U()
        d2, _, _ = P.get_DNVGL_Hs_Tz()
        return [d1[0], d1[1], d2[1]], None
    d1, f1, _ = P.get_OMAE2020_V_Hs()
    d2, f2, _ = P.get_OMAE2020_Hs_Tz()
    d1[1]["intervals"] = d2[0]["intervals"]
    tz = dict(d2[1])
    tz["conditional_on"] = 1
    return [d1[0], d1[1], tz], [f1[0], f1[1], f2[1]]


FITTED = ["DNVGL_Hs_Tz", "OMAE2020_Hs_Tz", "DNVGL_Hs_U", "OMAE2020_V_Hs", "fork_Hs_U_Tz", "chain_V_Hs_Tz"]


def fitted_pit(model, x):
    """PIT of the rows under the law the FITTED model reports: unconditional dimensions from `.parameters`,
    conditional ones from the fitted dependence functions' `.func` and `.parameters` evaluated here at the row's
    conditioning value"""
    U = np.empty_like(x)
    valid = True
    for i in range(model.n_dim):
        dist, ci = model.distributions[i], model.conditional_on[i]
        if ci is None:
            fresh = type(dist)(**{k: float(v) for k, v in dist.parameters.items()})
            U[:, i] = fresh.cdf(x[:, i])
        else:
            vals = dict(dist.fixed_parameters)
            for name, dep in dist.conditional_parameters.items():
                v = np.broadcast_to(np.asarray(dep.func(x[:, ci], *dep.parameters.values()), dtype=float), x[:, ci].shape)
                valid = valid and bool(np.all(np.isfinite(v)))
                vals[name] = v
            U[:, i] = dist.distribution.cdf(x[:, i], **vals)
    return U, valid


def process_fitted(ck, case):
    which, n, seed = case["which"], case["n"], case["seed"]
    ck.case(case, nontrivial=True, sample=False)
    ck.count("part=F-fitted")
    GHM = models.V["GlobalHierarchicalModel"]
    with np.errstate(all="ignore"), warnings.catch_warnings():
        warnings.simplefilter("ignore")
        data = _truth_sample(np.random.default_rng(case["data_seed"]), case["n_data"], which)

        def build():
            dd, fd = _fit_descriptions(which)
            mdl = GHM(dd)
            mdl.fit(data, fd)
            return mdl

        try:
            model = build()
        except Exception as e:      # a failing fit is not C07's subject
            ck.count("F_fit_failed")
            ck.extra.setdefault("F_fit_failed", []).append(f"{which}: {type(e).__name__}")
            return "fit_failed"
        bad = []
        try:
            x = np.asarray(model.draw_sample(n, random_state=seed))
        except Exception as e:
            # possible on the unchanged code when the fit left the parameter domain (e.g. a fitted Weibull location < 0
            # makes x**c undefined): retried by the caller with new data, reported if it happens every time
            ck.count("F_draw_raised")
            ck.extra.setdefault("F_draw_raised", []).append(f"{which}: {type(e).__name__}: {str(e)[:80]}")
            return "draw_raised"
        if x.shape != (n, model.n_dim):
            bad.append(("shape_n_by_ndim", f"shape {x.shape} expected {(n, model.n_dim)}"))
        else:
            U, valid = fitted_pit(model, x)
            if not (valid and np.all(np.isfinite(x)) and np.all(np.isfinite(U))):
                # the fitted dependence functions leave the parameter domain somewhere on the sample: no law to compare with
                ck.count("F_fitted_parameters_invalid_on_sample")
            else:
                ck.count("F_statistics")
                ck.count(f"F_n_dim={model.n_dim}")
                bad += pit_failures(ck, U, list(model.conditional_on), x)
            if not np.array_equal(x, np.asarray(model.draw_sample(n, random_state=seed)), equal_nan=True):
                bad.append(("same_seed_reproduces", f"int seed {seed}, fitted model"))
            g1 = np.asarray(model.draw_sample(n, random_state=np.random.default_rng(seed)))
            g2 = np.asarray(build().draw_sample(n, random_state=np.random.default_rng(seed)))
            if not np.array_equal(g1, g2, equal_nan=True):
                bad.append(("generator_reproduces_across_objects", "two models fitted to the same data, identically seeded Generators"))
            for t in seed_partners(np.random.default_rng(seed), seed):
                if np.array_equal(x, np.asarray(model.draw_sample(n, random_state=t)), equal_nan=True):
                    bad.append(("different_seeds_differ", f"seeds {seed} and {t}"))
                    break
            for k in (1, 2, 3):
                xs = np.asarray(model.draw_sample(k, random_state=seed))
                if xs.shape != (k, model.n_dim):
                    bad.append(("shape_n_by_ndim", f"fitted model, n={k}: shape {xs.shape}"))
                    break
    for pred, detail in bad:
        ck.fail({"entry": "GlobalHierarchicalModel.draw_sample", "predicate": pred, "input_class": "fitted model"},
                case, detail)
    return "ok"


def main(ck):
    rng = np.random.default_rng(ck.seed)
    thorough = ck.tier == "thorough"
    ck.rule = ("(A) joint samples of random hierarchical models over inverse-transform doubles (every structure for n_dim "
               "2..4 once, then random; n in {1,2,3,17,100,1000[,20000]}; int and Generator seeds) compared bit for bit with "
               "the model on the replayed uniform stream; (B) _get_rvs_size on random scalar/vector parameter lists and "
               "constant dependence functions; (C) DKW/Hoeffding tests of shipped families (incl. LogNormalNormFit, two "
               "ScipyDistribution subclasses; int seed, Generator, None) and joint models; (D) joint models over every family "
               "(Normal, von Mises with vector parameters modulo 2 pi, LogNormalNormFit, ScipyDistribution subclasses; "
               "dimensions conditional on real-valued variables) with n large (PIT, independently evaluated parameters) and "
               "n in {1,2,3} (3-D chains), random_state None/int/Generator, second model object, object re-use, seed "
               "pairs; (E) univariate n in {1,2,3}; (F) predefined 2-D/3-D models fitted to data, then sampled; "
               "non-trivial = model with a dependent parameter and n >= 2 (A), a dependent parameter (C, D), every case "
               "of E, F; distinct by SHA1")
    ck.assumptions = ["numpy Generator streams are reproducible and uniform() is consumed in call order",
                      "DKW / Hoeffding bounds at error probability 1e-12 per comparison"]
    ck.partial = {"distributional agreement of shipped-family samples": "statistics of numpy/scipy samplers; DKW-tested at runtime",
                  "independence of the Rosenblatt-transformed columns": "tested on a 4x4 partition at runtime",
                  "same integer seed / identically seeded Generator reproduces the sample": "observed (same object, second "
                  "object, after an earlier draw, fitted model); no theorem - same_stream_same_sample_trivial is a definitional remark",
                  "different seeds give different samples": "observed for pairs (s, s+1), (s, s with one far bit flipped), (s, random t)",
                  "random_state=None": "observed: shape, finiteness, two draws differ, DKW statistics",
                  "samples of a fitted model follow the fitted law": "DKW-tested at runtime against the parameters the model reports"}
    for case in structure_cases(rng):
        process_exact(ck, case)
    for case in gen_exact_cases(rng, 700 if thorough else 120, thorough):
        process_exact(ck, case)
    process_rvs_size(ck, rng)
    process_constant_dependence(ck, rng)
    n = 1000000 if thorough else 20000
    process_univariate(ck, rng, n)
    for _ in range(30 if thorough else 8):
        process_joint_stat(ck, joint_stat_case(rng, 200000 if thorough else 20000))
    for case in gen_ext_cases(rng, thorough):
        process_ext(ck, case)
    for _ in range(4 if thorough else 1):
        process_univariate_small(ck, rng)
    for which in FITTED * (3 if thorough else 1):
        fitted_with_retries(ck, rng, which, 200000 if thorough else 20000)


def fitted_with_retries(ck, rng, which, n):
    """a fit that fails, or that leaves the parameter domain so that sampling raises, is retried with new data (the
    truth is chosen such that this is rare); sampling that raises on EVERY fitted model is reported"""
    statuses = []
    for attempt in range(4):
        case = {"part": "F", "which": which, "data_seed": int(rng.integers(0, 2**32)),
                "n_data": int(rng.choice([6000, 10000])), "n": n, "seed": int(rng.integers(0, 2**32))}
        statuses.append(process_fitted(ck, case))
        if statuses[-1] == "ok":
            return
    if "draw_raised" in statuses:
        ck.fail({"entry": "GlobalHierarchicalModel.draw_sample", "predicate": "fitted_model_can_be_sampled",
                 "input_class": "fitted model"}, case,
                f"{which}: {statuses}; " + "; ".join(ck.extra.get("F_draw_raised", [])[-2:]))


def replay(ck, payload):
    case = payload["case"]
    part = case.get("part")
    if part == "A":
        process_exact(ck, case)
    elif part == "D":
        process_ext(ck, case)
    elif part == "F":
        if process_fitted(ck, case) == "draw_raised":
            print("oracle: draw_sample raised on the fitted model:", ck.extra.get("F_draw_raised"))
            return False
    elif part == "C" and "model" in case:
        process_joint_stat(ck, case)
    elif part == "C" and "family" in case:
        process_univariate_case(ck, case)
    elif part == "E":
        process_univariate_small_case(ck, case)
    else:
        process_constant_dependence(ck, np.random.default_rng(case.get("seed", 0)))
    for s, c, d in ck.failures:
        print("oracle:", s, d)
    for op, c, d in ck.divergences:
        print("correspondence:", op, d)
    return not ck.failures
