"""
C07 - Samples follow the model they are drawn from and are reproducible by seed.

Correspondence
  (A) doubles with inverse-transform leaves: the harness re-creates default_rng(seed) and
      replays the same uniform() calls; joint samples of the real GlobalHierarchicalModel are
      bit-identical to the Lean `sampleRows` on that stream (2-D..4-D, every structure, n in
      {1,2,17,1000,...}; random_state int / Generator).
  (B) `_get_rvs_size` and the number of draws of conditional dimensions vs the Lean `rvsSize` /
      `condDrawCount` (constant dependence functions included).
Oracle / partial (runtime, shipped families): shape, same seed => identical, different seeds =>
different, PIT values of every dimension ~ U(0,1) and pairs of PIT columns ~ product measure
within distribution-free bounds at error probability 1e-12 per comparison.
  (D) joint models over EVERY shipped family (Normal, von Mises with vector parameters through
      ConditionalDistribution - compared modulo 2 pi -, LogNormalNormFit, ScipyDistribution subclasses, ...):
      PIT with independently evaluated per-row parameters; n in {1,2,3} (shape, reproducibility; 3-D chains);
      random_state None / int / Generator; seed pairs (s, t); second model object; object re-use.
  (E) univariate small n, random_state=None, seed pairs.
  (F) models FITTED to data (predefined descriptions, 2-D and 3-D), then sampled: per-row conditional law
      evaluated from the fitted parameters the model reports.
"""
import math
import warnings

import numpy as np

from core import f2b, b2f
import doubles
import models

DELTA = 1e-12


def dkw_eps(n, delta=DELTA):
    return math.sqrt(math.log(2.0 / delta) / (2.0 * n))


def ks_uniform(u):
    u = np.sort(np.asarray(u, dtype=float))
    n = len(u)
    i = np.arange(1, n + 1)
    return float(max(np.max(i / n - u), np.max(u - (i - 1) / n)))


def seed_partners(rng, seed):
    """seeds t != seed with 0 <= t < 2**32 (valid for the legacy RandomState scipy builds from an int): the
    neighbour, one with a single far bit flipped, an unrelated one"""
    out = {seed + 1 if seed < 2**32 - 1 else seed - 1, seed ^ (1 << int(rng.integers(1, 32))),
           int(rng.integers(0, 2**32))}
    out.discard(seed)
    return sorted(out)


def pit_failures(ck, U, conds):
    """distribution-free tests of a matrix of PIT values: every column ~ U(0,1) (DKW), pairs of columns ~ product
    measure on a 4x4 partition (Hoeffding per cell, union over the 16 cells)"""
    n, n_dim = U.shape
    bad = []
    eps = dkw_eps(n)
    if not np.all(np.isfinite(U)):
        return [("drawn_from_conditional_given_same_row", "PIT values are not finite")]
    for i in range(n_dim):
        d = ks_uniform(U[:, i])
        ck.hyp_checked += 1
        if d > eps:
            bad.append(("drawn_from_conditional_given_same_row",
                        f"dimension {i} (conditional on {conds[i]}): PIT KS {d:.4f} > {eps:.4f}"))
    t = math.sqrt(math.log(2 * 16 / DELTA) / (2 * n))
    for i in range(n_dim):
        for k in range(i + 1, n_dim):
            H, _, _ = np.histogram2d(U[:, i], U[:, k], bins=4, range=[[0, 1], [0, 1]])
            dev = float(np.max(np.abs(H / n - 1 / 16)))
            ck.hyp_checked += 1
            if dev > t + 2 * eps:
                bad.append(("rosenblatt_columns_independent", f"dims {i},{k}: cell deviation {dev:.4f} > {t + 2*eps:.4f}"))
    return bad


def none_failures(draw, shape):
    """random_state=None: requested shape, finite values, two draws differ (fresh entropy each time)"""
    a = np.asarray(draw(None))
    b = np.asarray(draw(None))
    if a.shape != shape or b.shape != shape:
        return [("none_shape", f"random_state=None: shape {a.shape} / {b.shape}, expected {shape}")], a
    if not (np.all(np.isfinite(a)) and np.all(np.isfinite(b))):
        return [("none_finite", "random_state=None: sample contains non-finite values")], a
    if np.array_equal(a, b):
        return [("none_draws_differ", f"two draws with random_state=None are identical: {a.ravel()[:4].tolist()}")], a
    return [], a


def reproducibility_failures(rng, build, n, seed, first):
    """`first` = build().draw_sample(n, random_state=seed) drawn by the caller on another object. Checks on a SECOND
    model object: an earlier draw (other seed, other size) does not influence a later seeded draw; identically
    seeded Generators give identical samples on two different objects; int seed repeats; seed pairs (s, t) differ."""
    bad = []
    m1, m2 = build(), build()
    m1.draw_sample(n + 1, random_state=seed ^ 5)          # earlier draw on the same object
    again = np.asarray(m1.draw_sample(n, random_state=seed))
    if not np.array_equal(first, again):
        bad.append(("reproduces_on_second_object_after_earlier_draw",
                    f"int seed {seed}: draw on a second model object after an earlier draw differs from the first draw"))
    g1 = np.asarray(m1.draw_sample(n, random_state=np.random.default_rng(seed)))
    g2 = np.asarray(m2.draw_sample(n, random_state=np.random.default_rng(seed)))
    if g1.shape != first.shape or not np.array_equal(g1, g2):
        bad.append(("generator_reproduces_across_objects",
                    f"identically seeded Generators (seed {seed}) on two model objects give different samples"))
    for t in seed_partners(rng, seed):
        if np.array_equal(first, np.asarray(m2.draw_sample(n, random_state=t))):
            bad.append(("different_seeds_differ", f"seeds {seed} and {t} give identical samples"))
            break
    return bad


# --------------------------------------------------------------------------- (A)

def gen_exact_cases(rng, n_cases, big):
    for k in range(n_cases):
        m = doubles.random_model(rng)
        if k % 7 == 3:
            # a conditional dimension whose parameters are ALL fixed (accepted by virocon: "parameters": {}): still one
            # independent draw per row
            for i in range(m.n_dim):
                if m.cond[i] is not None:
                    m.s[i] = doubles.Dep("fixed", [float(rng.uniform(0.5, 2.0))])
                    m.l[i] = doubles.Dep("fixed", [float(rng.choice([0.0, 0.25]))])
                    break
        n = int(rng.choice([1, 2, 3, 17, 100, 1000] + ([20000] if big else [])))
        # boundary seeds (0 is falsy in Python, 2**32-1 the largest legacy seed) are drawn on purpose
        seed = int(rng.choice([0, 0, 1, 2**32 - 1])) if k % 4 == 0 else int(rng.integers(0, 2**31))
        yield {"part": "A", "model": m.describe(), "n": n, "seed": seed,
               "rs": str(rng.choice(["int", "generator"]))}


def structure_cases(rng):
    for n_dim in (2, 3, 4):
        for cond in doubles.all_structures(n_dim):
            m = doubles.random_model(rng, n_dim=n_dim, cond=cond)
            yield {"part": "A", "model": m.describe(), "n": 5, "seed": int(rng.integers(0, 2**31)), "rs": "int",
                   "gen": "all-structures"}


def process_exact(ck, case):
    desc = doubles.model_from_desc(case["model"])
    model = desc.build()
    n, seed = case["n"], case["seed"]
    rs = seed if case["rs"] == "int" else np.random.default_rng(seed)
    got = np.asarray(model.draw_sample(n, random_state=rs), dtype=float)
    rng2 = np.random.default_rng(seed)
    stream = np.concatenate([rng2.uniform(size=n) for _ in range(desc.n_dim)])
    line = " ".join(["RUN", "sample"] + desc.tokens() + [str(n)] + [str(f2b(v)) for v in stream])
    ans = ck.driver.run([line])[0].split()
    ck.case(case, nontrivial=desc.n_dependent() >= 1 and n >= 2)
    ck.count("part=A")
    ck.count(f"A_n_dim={desc.n_dim}")
    ck.count("A_rs=" + case["rs"])
    bad = []
    if got.shape != (n, desc.n_dim):
        bad.append(("shape_n_by_ndim", f"shape {got.shape} expected {(n, desc.n_dim)}"))
    else:
        # oracle: Rosenblatt transform of the sample is the driving stream (exact leaves)
        U = stream.reshape(desc.n_dim, n).T
        for i in range(desc.n_dim):
            ci = desc.cond[i]
            for j in range(min(n, 50)):
                g = None if ci is None else float(got[j, ci])
                s = desc.s[i].value(g) if g is not None else desc.s[i].pars[0]
                l = desc.l[i].value(g) if g is not None else desc.l[i].pars[0]
                z = got[j, i] - l
                F = z / (z + s) if z > 0 else 0.0
                if abs(F - U[j, i]) > 1e-9:
                    bad.append(("drawn_from_conditional_given_same_row", f"row {j} dim {i}: F={F!r} u={U[j, i]!r}"))
                    break
            if bad:
                break
        again = np.asarray(model.draw_sample(n, random_state=seed))
        again_g = np.asarray(model.draw_sample(n, random_state=np.random.default_rng(seed)))
        if not np.array_equal(got, again if case["rs"] == "int" else again_g):
            bad.append(("same_seed_reproduces", "repeating the call with the same seed gives a different sample"))
        other = np.asarray(model.draw_sample(n, random_state=seed + 1))
        if np.array_equal(other, again):
            bad.append(("different_seeds_differ", f"seeds {seed} and {seed+1} give identical samples"))
        # object re-use: after the draw with another seed the SAME object reproduces the first sample ...
        rs2 = seed if case["rs"] == "int" else np.random.default_rng(seed)
        if not np.array_equal(got, np.asarray(model.draw_sample(n, random_state=rs2))):
            bad.append(("reproduces_after_earlier_draw_on_same_object", f"seed {seed} ({case['rs']})"))
        # ... and so does a second object; seed pairs beyond s/s+1
        if seed < 2**32:
            bad += reproducibility_failures(np.random.default_rng(seed), desc.build, n, seed, again)
            ck.count("A_second_object_and_seed_pairs")
    for pred, detail in bad:
        ck.fail({"entry": "GlobalHierarchicalModel.draw_sample", "predicate": pred}, case, detail)
    if ans[0] != "OK":
        if not bad:
            ck.diverge("joint-sampling", case, "model: " + " ".join(ans))
        return
    mv = np.array([b2f(v) for v in ans[2:]]).reshape(n, desc.n_dim)
    if not bad and not np.array_equal(mv.view(np.uint64), np.ascontiguousarray(got).view(np.uint64)):
        d = np.argwhere(mv != got)[0]
        ck.diverge("joint-sampling", case, f"row {d[0]} dim {d[1]}: impl {got[tuple(d)]!r} model {mv[tuple(d)]!r}")


# --------------------------------------------------------------------------- (B)

def process_rvs_size(ck, rng):
    from virocon.distributions import Distribution

    for _ in range(60):
        n = int(rng.integers(1, 50))
        k = int(rng.integers(1, 5))
        shapes = [None if rng.integers(0, 2) else int(rng.integers(1, 9)) for _ in range(k)]
        pars = [0.5 if s is None else np.full(s, 0.5) for s in shapes]
        got = Distribution._get_rvs_size(n, pars)
        toks = ["s" if s is None else f"v{s}" for s in shapes]
        ans = ck.driver.run([" ".join(["RUN", "rvssize", str(n)] + toks)])[0].split()
        want = n if ans[1] == "flat" else (int(ans[2]), int(ans[3]))
        case = {"part": "B", "n": n, "shapes": shapes}
        ck.case(case, nontrivial=any(s is not None for s in shapes), sample=False)
        ck.count("part=B")
        if got != want:
            ck.diverge("rvs-size", case, f"impl {got} model {want}")


def _const_a(x, a):
    return a


def _const_b(x, b=0.4):
    return b


def process_constant_dependence(ck, rng):
    """a conditional dimension whose dependence functions ignore x must still give one draw per row"""
    from virocon import (DependenceFunction, GlobalHierarchicalModel, LogNormalDistribution,
                         WeibullDistribution)

    for variant in ("all_constant", "one_constant"):
        a = DependenceFunction(_const_a)
        a.parameters = {"a": 1.2}
        if variant == "all_constant":
            b = DependenceFunction(_const_b)
            pars = {"mu": a, "sigma": b}
            raw = ["s", "s"]
        else:
            b = DependenceFunction(models._asym3)
            b.parameters = {"a": 0.2, "b": 0.5, "c": 0.3}
            pars = {"mu": a, "sigma": b}
            raw = ["s", "v7"]
        model = GlobalHierarchicalModel([
            {"distribution": WeibullDistribution(2.0, 1.5)},
            {"distribution": LogNormalDistribution(), "conditional_on": 0, "parameters": pars}])
        n = 7
        seed = int(rng.integers(0, 2**31))
        smp = np.asarray(model.draw_sample(n, random_state=seed))
        case = {"part": "B", "variant": "constant-dependence-" + variant, "n": n, "seed": seed}
        ck.case(case, nontrivial=True)
        ck.count("B_constant_dependence")
        distinct = len(set(smp[:, 1].tolist()))
        ans = ck.driver.run([" ".join(["RUN", "conddraws", str(n)] + raw)])[0].split()
        want = int(ans[1])
        if distinct != n:
            ck.fail({"entry": "GlobalHierarchicalModel.draw_sample", "predicate": "one_draw_per_row",
                     "input_class": "dependence functions returning a scalar for vector input"}, case,
                    f"{variant}: column 1 has {distinct} distinct values in {n} rows: {smp[:, 1].tolist()}")
        elif want != n:
            ck.diverge("cond-draw-count", case, f"model draws {want}, implementation {distinct}")


# --------------------------------------------------------------------------- (C) statistics

def univariate_families(rng):
    from virocon import (ExponentiatedWeibullDistribution, GeneralizedGammaDistribution,
                         LogNormalDistribution, NormalDistribution, VonMisesDistribution, WeibullDistribution)

    u = rng.uniform
    return [
        ("Weibull", WeibullDistribution(10 ** u(-0.3, 0.7), u(0.9, 3), float(rng.choice([0, 0.5])))),
        ("LogNormal", LogNormalDistribution(u(-0.3, 1.5), u(0.15, 0.7))),
        ("Normal", NormalDistribution(u(-2, 5), u(0.4, 2))),
        ("ExpWeibull", ExponentiatedWeibullDistribution(10 ** u(-0.3, 0.5), u(0.8, 2.5), u(0.7, 4))),
        ("GenGamma", GeneralizedGammaDistribution(u(0.8, 3), u(0.8, 2.5), u(0.3, 2))),
        ("VonMises", VonMisesDistribution(u(0.3, 4.0), u(0.5, 5.5))),
    ]


def process_univariate(ck, rng, n):
    eps = dkw_eps(n)
    for name, dist in univariate_families(rng):
        seed = int(rng.integers(0, 2**31))
        case = {"part": "C", "family": name, "parameters": {k: float(v) for k, v in dist.parameters.items()},
                "n": n, "seed": seed}
        ck.case(case, nontrivial=True, sample=False)
        ck.count("part=C-univariate")
        x = np.asarray(dist.draw_sample(n, random_state=seed))
        bad = []
        if x.shape != (n,):
            bad.append(("univariate_shape", f"shape {x.shape} for n={n}"))
        else:
            if name == "VonMises":
                # samples are wrapped; compare modulo 2 pi on the interval the cdf is defined on
                mu = dist.parameters["mu"]
                xx = np.mod(x - mu + np.pi, 2 * np.pi) + mu - np.pi
                u = np.asarray(dist.cdf(xx))
                u = np.mod(u, 1.0)
            else:
                u = np.asarray(dist.cdf(x))
            d = ks_uniform(u)
            ck.hyp_checked += 1
            if d > eps:
                bad.append(("univariate_sample_matches_cdf", f"{name}: KS distance {d:.4f} > {eps:.4f} (n={n})"))
            g1 = np.asarray(dist.draw_sample(n, random_state=np.random.default_rng(seed)))
            g2 = np.asarray(dist.draw_sample(n, random_state=np.random.default_rng(seed)))
            if not (np.array_equal(x, np.asarray(dist.draw_sample(n, random_state=seed))) and np.array_equal(g1, g2)):
                bad.append(("same_seed_reproduces", f"{name}"))
            if np.array_equal(x, np.asarray(dist.draw_sample(n, random_state=seed + 1))):
                bad.append(("different_seeds_differ", f"{name}"))
        for pred, detail in bad:
            ck.fail({"entry": "Distribution.draw_sample", "predicate": pred, "family": name}, case, detail)


def joint_stat_case(rng, n):
    m = models.random_fam_model(rng, n_dim=int(rng.choice([2, 3])))
    seed = 0 if rng.integers(0, 3) == 0 else int(rng.integers(0, 2**31))
    return {"part": "C", "model": m.describe(), "n": n, "seed": seed}


def process_joint_stat(ck, case):
    m = models.fam_model_from_desc(case["model"])
    model = m.build()
    n, seed = case["n"], case["seed"]
    ck.case(case, nontrivial=m.n_dependent() >= 1, sample=False)
    ck.count("part=C-joint")
    with np.errstate(all="ignore"), warnings.catch_warnings():
        warnings.simplefilter("ignore")
        x = np.asarray(model.draw_sample(n, random_state=seed))
        bad = []
        if x.shape != (n, m.n_dim):
            bad.append(("shape_n_by_ndim", f"{x.shape}"))
        else:
            U = np.empty_like(x)
            for i in range(m.n_dim):
                ci = m.cond[i]
                U[:, i] = model.distributions[i].cdf(x[:, i]) if ci is None else \
                    model.distributions[i].cdf(x[:, i], given=x[:, ci])
            bad += pit_failures(ck, U, m.cond)
            g1 = np.asarray(model.draw_sample(n, random_state=np.random.default_rng(seed)))
            g2 = np.asarray(model.draw_sample(n, random_state=np.random.default_rng(seed)))
            if not (np.array_equal(x, np.asarray(model.draw_sample(n, random_state=seed))) and np.array_equal(g1, g2)):
                bad.append(("same_seed_reproduces", "same int seed / identically seeded Generator"))
            if np.array_equal(x, np.asarray(model.draw_sample(n, random_state=seed + 1))):
                bad.append(("different_seeds_differ", ""))
    for pred, detail in bad:
        ck.fail({"entry": "GlobalHierarchicalModel.draw_sample", "predicate": pred}, case, detail)


def main(ck):
    rng = np.random.default_rng(ck.seed)
    thorough = ck.tier == "thorough"
    ck.rule = ("(A) joint samples of random hierarchical models over inverse-transform doubles (every structure for n_dim "
               "2..4 once, then random; n in {1,2,3,17,100,1000[,20000]}; int and Generator seeds) compared bit for bit with "
               "the model on the replayed uniform stream; (B) _get_rvs_size on random scalar/vector parameter lists and "
               "constant dependence functions; (C) DKW/Hoeffding tests of shipped families and joint models; non-trivial = "
               "model with a dependent parameter and n >= 2; distinct by SHA1")
    ck.assumptions = ["numpy Generator streams are reproducible and uniform() is consumed in call order",
                      "DKW / Hoeffding bounds at error probability 1e-12 per comparison"]
    ck.partial = {"distributional agreement of shipped-family samples": "statistics of numpy/scipy samplers; DKW-tested at runtime",
                  "independence of the Rosenblatt-transformed columns": "tested on a 4x4 partition at runtime",
                  "different seeds give different samples": "observed"}
    for case in structure_cases(rng):
        process_exact(ck, case)
    for case in gen_exact_cases(rng, 700 if thorough else 120, thorough):
        process_exact(ck, case)
    process_rvs_size(ck, rng)
    process_constant_dependence(ck, rng)
    n = 1000000 if thorough else 20000
    process_univariate(ck, rng, n)
    for _ in range(30 if thorough else 8):
        process_joint_stat(ck, joint_stat_case(rng, 200000 if thorough else 20000))


def replay(ck, payload):
    case = payload["case"]
    if case.get("part") == "A":
        process_exact(ck, case)
    else:
        process_constant_dependence(ck, np.random.default_rng(case.get("seed", 0)))
    for s, c, d in ck.failures:
        print("oracle:", s, d)
    for op, c, d in ck.divergences:
        print("correspondence:", op, d)
    return not ck.failures
