"""
C03 - direct-sampling contour edges are (1-alpha)-quantile tangent lines of the sample.

Correspondence: real `DirectSamplingContour` vs the Lean model (Model/DirectSampling.lean):
direction grid (numpy negative-step arange, sliced to one turn), projections, numpy type-7
quantile, cyclic line intersections; cos/sin cross as TABLE leaves evaluated with the same
numpy calls.  Angles, quantiles and vertices are compared bit for bit (a conditioning-aware
tolerance is the fallback so that a harmless reordering of float operations stays quiet).

Oracle (on the implementation's own output, independent of the model): the returned polygon
has 360/deg_step finite vertices; there is a start normal and an orientation such that, for
every j, the cyclic edge (v[j-1], v[j]) lies on ONE line whose normal is start + j*step and
whose offset leaves a fraction alpha (+-1/n) of the projected sample beyond it; the stored
sample is the one used; n = int(100/alpha) points are drawn when none are supplied.
"""
import math
import multiprocessing
import warnings

import numpy as np

import core
from core import f2b, b2f, fl
from c03c04_common import CLOUD_KINDS, MODEL_NAMES, StubModel, build_model, cloud, model_sample

DIVISORS = [d for d in range(1, 61) if 360 % d == 0]
# steps that divide 360 exactly without being whole numbers (all exactly representable doubles)
NONINT_DIVISORS = [7.5, 22.5, 2.5, 1.5, 4.5, 11.25, 3.75, 1.25]
DEFAULT_DEG_STEP = 5  # documented public default ("Directional step in degrees. Defaults to 5.")
ENTRY = "DirectSamplingContour._compute"


def deg_object(case):
    """the object handed over as deg_step (docstring type: float)"""
    t = case.get("deg_type", "int")
    d = case["deg"]
    if t == "float":
        return float(d)
    if t == "np.int64":
        return np.int64(d)
    if t == "np.float64":
        return np.float64(d)
    return d


def n_directions(deg):
    return int(round(360 / deg))


def is_whole(deg):
    return float(deg) == int(deg)


def with_layout(sample, layout):
    """the same numbers in another memory layout / dtype"""
    if layout == "F":
        return np.asfortranarray(sample)
    if layout == "strided":
        wide = np.full((len(sample), 5), -12345.678, dtype=sample.dtype)
        wide[:, 1] = sample[:, 0]
        wide[:, 3] = sample[:, 1]
        return wide[:, 1:4:2]
    if layout == "float32":
        return sample.astype(np.float32)
    return sample


# ---------------------------------------------------------------------------
# cases


def make_sample(case):
    if "sample" in case:
        s = np.array(case["sample"], dtype=float).reshape(-1, 2)
    elif case["src"] == "model":
        s = model_sample(case["model"], case["pseed"], case["n"], case["sseed"])
    else:
        s = cloud(case["cloud"], case["n"], case["sseed"])
    return with_layout(s, case.get("layout", "C"))


def run_impl(case):
    """returns dict(coords, sample, n_attr, drawn) or dict(err=...)"""
    from virocon import DirectSamplingContour

    alpha = case["alpha"]
    dkw = {} if case.get("deg_type") == "default" else {"deg_step": deg_object(case)}
    try:
        with warnings.catch_warnings():
            warnings.simplefilter("ignore")
            if case.get("supplied", True):
                sample = make_sample(case)
                model = build_model(case["model"], case["pseed"]) if case["src"] == "model" and case.get("real_model") else StubModel()
                # same layout / dtype as `sample`, but its own memory: an in-place change is then visible
                c = DirectSamplingContour(model, alpha, sample=with_layout(np.array(sample), case.get("layout", "C")), **dkw)
                drawn = None
            else:
                model = build_model(case["model"], case["pseed"], recording=True)
                np.random.seed(case["sseed"] % (2**32))
                kw = {} if case.get("n_arg") is None else {"n": case["n_arg"]}
                c = DirectSamplingContour(model, alpha, **dkw, **kw)
                sample = None
                drawn = [(n, s) for n, s in model.rec_draw]
            coords = np.array(c.coordinates, dtype=float)
            used = np.array(c.sample, dtype=float)
    except Exception as e:  # noqa: BLE001
        return {"err": type(e).__name__, "msg": str(e)[:200]}
    return {"coords": coords, "sample": used, "supplied_sample": sample, "drawn": drawn, "n_attr": c.n}


def direction_tables(deg):
    """the numpy expressions of the code, evaluated the same way (scalar calls for the
    quantiles, array calls for the intersections); returns (angles_all, table lines, n_mismatch)"""
    rad_step = deg * np.pi / 180
    angles = np.arange(0.5 * np.pi + 2 * rad_step, -1.5 * np.pi + rad_step, -1 * rad_step)
    lines = []
    mism = 0
    ca, sa = np.cos(angles), np.sin(angles)
    for i, a in enumerate(angles):
        c, s = np.cos(angles[i]), np.sin(angles[i])
        if f2b(c) != f2b(ca[i]) or f2b(s) != f2b(sa[i]):
            mism += 1
        lines.append(["TABLE", "cos", str(f2b(a)), str(f2b(c))])
        lines.append(["TABLE", "sin", str(f2b(a)), str(f2b(s))])
    return angles, lines, mism


def model_lines(case, sample):
    _, tl, mism = direction_tables(case["deg"])
    run = ["RUN", "c03ds", str(f2b(np.pi)), str(f2b(case["deg"])), str(f2b(case["alpha"]))] + fl(sample[:, 0]) + fl(sample[:, 1])
    return [["CLEAR"]] + tl + [run], mism


def parse_model(ans):
    t = ans.split()
    if t[0] != "OK":
        return {"err": " ".join(t[1:])}
    n = int(t[1])
    th = [int(t[2 + 2 * i]) for i in range(n)]
    r = [int(t[3 + 2 * i]) for i in range(n)]
    p = 2 + 2 * n
    vs = []
    for i in range(n):
        a, b = t[p + 2 * i], t[p + 2 * i + 1]
        vs.append(None if a == "-" else (int(a), int(b)))
    return {"n": n, "theta": th, "r": r, "v": vs}


def _same(bits, x):
    return bits == f2b(x) or (b2f(bits) == 0.0 and x == 0.0)


def compare(case, impl, model, sample):
    """None, or (severity, text); severity 'exact' = bit mismatch only, within tolerance"""
    if "err" in impl or "err" in model:
        if "err" in impl and "err" in model:
            return None
        return ("hard", f"error mismatch impl={impl.get('err')} {impl.get('msg', '')} model={model.get('err')}")
    co = impl["coords"]
    if co.ndim != 2 or co.shape[1] != 2 or co.shape[0] != model["n"]:
        return ("hard", f"number of vertices impl={co.shape} model={model['n']}")
    # the model's own direction grid and quantiles against numpy
    rad_step = case["deg"] * np.pi / 180
    angles = np.arange(0.5 * np.pi + 2 * rad_step, -1.5 * np.pi + rad_step, -1 * rad_step)
    nd = n_directions(case["deg"])
    angles = angles[1 : nd + 1]
    if len(angles) != model["n"] or any(f2b(a) != b for a, b in zip(angles, model["theta"])):
        return ("hard", "direction grid: model arange/slice differs from numpy")
    x, y = sample.T
    q = 1 - case["alpha"]
    for i in range(0, model["n"], max(1, model["n"] // 12)):
        r = np.quantile(x * np.cos(angles[i]) + y * np.sin(angles[i]), q)
        if not _same(model["r"][i], r):
            return ("hard", f"quantile7 of direction {i}: numpy {r!r} model {b2f(model['r'][i])!r}")
    soft = None
    scale = max(1.0, float(np.max(np.abs(co[np.isfinite(co)]))) if np.isfinite(co).any() else 1.0)
    tol = 1e-9 * scale / math.sin(rad_step) ** 2
    for i in range(model["n"]):
        mv = model["v"][i]
        iv = co[i]
        if mv is None:
            if np.all(np.isfinite(iv)):
                return ("hard", f"vertex {i}: model determinant 0, impl {iv}")
            continue
        if _same(mv[0], iv[0]) and _same(mv[1], iv[1]):
            continue
        mx, my = b2f(mv[0]), b2f(mv[1])
        if not (abs(mx - iv[0]) <= tol and abs(my - iv[1]) <= tol):
            return ("hard", f"vertex {i}: impl {iv[0]!r},{iv[1]!r} model {mx!r},{my!r}")
        soft = ("soft", f"vertex {i}: bits differ within tolerance")
    return soft


# ---------------------------------------------------------------------------
# property oracle on the implementation's output


def oracle(case, impl):
    bad = []
    if "err" in impl:
        bad.append(("no_exception", f"{impl['err']}: {impl.get('msg')}"))
        return bad
    alpha, deg = case["alpha"], case["deg"]
    co, sample = impl["coords"], impl["sample"]
    if not is_whole(deg):
        # a step like 7.5 divides 360 but is not one of "the divisors of 360 between 1 and 60": the clauses are
        # not evaluated, only the correspondence with the model is
        return bad
    # --- the sample
    if impl["supplied_sample"] is not None:
        if sample.shape != impl["supplied_sample"].shape or not np.array_equal(sample, impl["supplied_sample"]):
            bad.append(("sample_stored", "contour.sample is not the supplied sample"))
            return bad
    else:
        want_n = int(100 / alpha) if case.get("n_arg") is None else case["n_arg"]
        dr = impl["drawn"]
        if impl["n_attr"] != want_n or sample.shape != (want_n, 2):
            bad.append(("default_n", f"alpha={alpha}: n attribute {impl['n_attr']}, sample shape {sample.shape}, expected n={want_n}"))
            return bad
        if len(dr) != 1 or dr[0][0] != want_n or not np.array_equal(dr[0][1], sample):
            bad.append(("sample_stored", f"model.draw_sample calls {[d[0] for d in dr]}; stored sample is not the drawn one"))
            return bad
    n = len(sample)
    N = n_directions(deg)
    if co.ndim != 2 or co.shape[1] != 2:
        bad.append(("coordinates_shape", str(co.shape)))
        return bad
    M = co.shape[0]
    finite = np.isfinite(co).all(axis=1)
    x, y = sample.T
    rs = float(deg) * np.pi / 180
    scale = max(1.0, float(np.max(np.abs(co[finite]))) if finite.any() else 1.0)
    # Honest tolerances.  A vertex is the intersection of two lines that meet at the angle `rs`: Cramer's rule
    # loses a factor 1/sin(rs), so a vertex carries an error e_v ~ eps*scale/sin(rs) (safety factor 64).  The
    # normal of edge 0 is estimated from the longest edge (length Lmax): its angle is off by up to 2*e_v/Lmax,
    # which shifts an offset by up to scale*2*e_v/Lmax.  Nothing else is allowed for.
    eps = np.finfo(float).eps
    e_v = 64 * eps * scale / math.sin(rs)
    dd = co - np.roll(co, 1, axis=0) if M >= 2 else np.zeros((0, 2))
    Ls = np.where(np.isfinite(dd).all(axis=1), np.hypot(dd[:, 0], dd[:, 1]), -1.0) if M >= 2 else np.array([-1.0])
    Lmax = float(Ls.max()) if len(Ls) else -1.0
    dphi = 2 * e_v / Lmax if Lmax > 0 else math.inf
    tol = 2 * e_v + scale * dphi
    # a sample point far from the origin moves by |p|*dphi along the normal when the normal turns by dphi
    tp = (np.abs(x) + np.abs(y)) * (dphi + 4 * eps)
    impl["_tol"] = (tol, scale)

    def edge_fail(phi0, sigma, Mv):
        """list of failing edge indices (edge j joins v[j-1] and v[j], cyclic) + detail"""
        fails = []
        for j in range(Mv):
            phi = phi0 + sigma * j * rs
            c, s = math.cos(phi), math.sin(phi)
            pa, pb = co[j - 1], co[j]
            if not (np.isfinite(pa).all() and np.isfinite(pb).all()):
                fails.append((j, "non-finite vertex"))
                continue
            ra, rb = c * pa[0] + s * pa[1], c * pb[0] + s * pb[1]
            if abs(ra - rb) > tol:
                fails.append((j, f"endpoints not on one line with this normal: offsets {ra!r} vs {rb!r} (tolerance {tol:.3g})"))
                continue
            rho = 0.5 * (ra + rb)
            z = x * c + y * s
            beyond = int((z > rho + tol + tp).sum())
            at_or_beyond = int((z >= rho - tol - tp).sum())
            if beyond > n * alpha + 1 or at_or_beyond < n * alpha - 1:
                fails.append((j, f"offset {rho!r}: {beyond} of {n} strictly beyond, {at_or_beyond} at or beyond; alpha*n={alpha*n:.6g} (tolerance {tol:.3g})"))
        return fails

    # candidates for the normal of edge 0 from the longest edge
    best = None
    if M >= 3:
        d = co - np.roll(co, 1, axis=0)
        L = np.where(np.isfinite(d).all(axis=1), np.hypot(d[:, 0], d[:, 1]), -1.0)
        cands = []
        for j0 in [int(v) for v in np.argsort(-L)[:3]]:
            if L[j0] > 0:
                t = d[j0] / L[j0]
                for nx, ny in ((t[1], -t[0]), (-t[1], t[0])):
                    phi = math.atan2(ny, nx)
                    for sigma in (-1, 1):
                        cands.append((phi - sigma * j0 * rs, sigma))
        if not cands:
            cands = [(0.5 * np.pi, -1)]
        for phi0, sigma in cands:
            f = edge_fail(phi0, sigma, M)
            if best is None or len(f) < len(best):
                best = f
            if not f:
                break
    if M != N:
        # the edges are still examined so that the replay says what is wrong with them
        extra = ""
        if best:
            extra = f"; edge {best[0][0]}: {best[0][1]}"
        bad.append(("normals_cover_circle_once", f"deg_step={deg}: {M} vertices, expected {N}" + extra))
        return bad
    if best is None:
        bad.append(("coordinates_shape", str(co.shape)))
        return bad
    if best:
        js = {j for j, _ in best}
        closing = js <= {0, M - 1}
        pred = "closing_vertex_on_tangent_lines" if closing else "edge_on_quantile_tangent_line"
        j, det = best[0]
        bad.append((pred, f"deg_step={deg}, {len(best)} of {M} edges fail; edge {j} (v[{(j-1)%M}]->v[{j}]): {det}"))
    return bad


# ---------------------------------------------------------------------------
# evaluation of a batch (runs in a worker)


def evaluate(cases):
    drv = core.Driver()
    out = []
    lines, metas = [], []
    for case in cases:
        impl = run_impl(case)
        rec = {"case": case, "bad": oracle(case, impl), "impl_err": impl.get("err")}
        if "_tol" in impl:
            rec["tol_rel"] = impl["_tol"][0] / impl["_tol"][1]
        if "err" not in impl:
            ls, mism = model_lines(case, impl["sample"])
            lines += ls
            rec["trig_mismatch"] = mism
            co = impl["coords"]
            rec["finite"] = bool(np.isfinite(co).all())
            rec["nvert"] = int(co.shape[0]) if co.ndim == 2 else -1
            s = impl["sample"]
            rec["distinct_pts"] = int(len(np.unique(s, axis=0))) if len(s) <= 200000 else len(s)
            rec["n"] = int(len(s))
            rec["has_ties"] = bool(rec["distinct_pts"] < len(s))
        metas.append((rec, impl))
    answers = drv.run(lines) if lines else []
    k = 0
    for rec, impl in metas:
        if "err" in impl:
            rec["cmp"] = None
        else:
            model = parse_model(answers[k])
            k += 1
            rec["cmp"] = compare(rec["case"], impl, model, impl["sample"])
            rec["model_err"] = model.get("err")
            if "err" not in model:
                rec["degenerate_pairs"] = sum(1 for v in model["v"] if v is None)
        out.append(rec)
    return out, drv.n_lines


def q7_probe(ck, rng, count):
    """quantile7 of the model against np.quantile on vectors with ties / heavy tails and
    q placed on, just below and just above the switch of the two lerp formulas"""
    lines, want = [], []
    for t in range(count):
        n = int(rng.choice([2, 3, 5, 50, 51, 101, 200, 997]))
        mode = t % 4
        z = rng.standard_normal(n) * 10 ** rng.uniform(-3, 3)
        if mode == 1:
            z = np.round(z, 1)
        elif mode == 2:
            z = rng.standard_cauchy(n)
        elif mode == 3:
            z = rng.integers(0, 4, n).astype(float)
        k = int(rng.integers(0, n - 1))
        q = float(rng.choice([1 - 1e-4, 0.7, 0.99, 1 - rng.uniform(1e-4, 0.3), (k + 0.5) / (n - 1), np.nextafter((k + 0.5) / (n - 1), 0), k / (n - 1), 1.0, 0.0]))
        q = min(max(q, 0.0), 1.0)
        lines.append(["RUN", "c03q7", str(f2b(q))] + fl(z))
        want.append((np.quantile(z, q), z, q))
    ans = ck.driver.run(lines)
    for a, (w, z, q) in zip(ans, want):
        ck.count("q7_probe")
        t = a.split()
        if t[0] != "OK" or not _same(int(t[1]), w):
            ck.diverge("quantile7", {"z": [float(v) for v in z], "q": q}, f"np.quantile {w!r} model {a}")


# ---------------------------------------------------------------------------
# generators


def corpus_cases():
    # DESIGN section 4 #10: default deg_step 5, closing vertex = intersection of identical lines
    yield {"gen": "corpus", "src": "model", "model": "hs_tz_weibull", "pseed": 0, "n": 2000, "sseed": 42,
           "alpha": 0.01, "deg": 5, "supplied": True}
    # deg_step 6: arange returns one angle more; the last two vertices coincide and the
    # first direction is used twice
    yield {"gen": "corpus", "src": "model", "model": "hs_tz_weibull", "pseed": 0, "n": 2000, "sseed": 42,
           "alpha": 0.01, "deg": 6, "supplied": True}
    # a tiny explicit cloud (n = 50, ties) for a readable replay
    r = np.random.default_rng(7)
    pts = np.round(r.normal(0, 2, (50, 2)), 1)
    yield {"gen": "corpus", "src": "explicit", "sample": [[float(a), float(b)] for a, b in pts],
           "alpha": 0.1, "deg": 45, "supplied": True}
    yield {"gen": "corpus", "src": "model", "model": "hs_tz_expweib", "pseed": 0, "alpha": 0.02, "deg": 10,
           "supplied": False, "n_arg": None, "sseed": 5}
    # deg_step as the docstring types it (float), as numpy integer, left at its default; steps that divide 360
    # without being whole numbers (correspondence only); other memory layouts / dtype of the supplied sample
    base = {"gen": "corpus", "src": "model", "model": "hs_u_weibull2", "pseed": 1, "n": 1000, "sseed": 11, "alpha": 0.05, "supplied": True}
    yield dict(base, deg=5, deg_type="default")
    yield dict(base, deg=5.0, deg_type="float")
    yield dict(base, deg=6, deg_type="np.int64", layout="F")
    yield dict(base, deg=24.0, deg_type="np.float64", layout="strided")
    yield dict(base, deg=7.5, deg_type="float")
    yield dict(base, deg=22.5, deg_type="float", layout="float32")
    yield dict(base, deg=10, src="cloud", cloud="corr_normal", layout="float32")
    yield {"gen": "corpus", "src": "model", "model": "indep_wbl_logn", "pseed": 0, "alpha": 0.1, "deg": 5, "deg_type": "default",
           "supplied": False, "n_arg": None, "sseed": 6}


def random_cases(rng, count, nmax, thorough):
    cap = 2e7 if thorough else 2.5e6  # n * number of directions (cost of the model's sorts)
    for i in range(count):
        deg = int(DIVISORS[i % len(DIVISORS)]) if i < 2 * len(DIVISORS) else int(rng.choice(DIVISORS))
        alpha = float(rng.choice([1e-4, 0.3, 0.01, 0.05, float(10 ** rng.uniform(-4, np.log10(0.3))), float(rng.uniform(0.01, 0.3))]))
        big = rng.uniform() < 0.08
        n = int(rng.choice([50, 51, 64, 100, 101, 200, 500, 1000, 2000])) if not big else int(nmax)
        while n * (360 // deg) > cap and n > 50:
            n = max(50, n // 2)
        case = {"gen": "random", "alpha": alpha, "deg": deg, "supplied": True, "sseed": int(rng.integers(0, 2**31))}
        v = rng.uniform()
        if v < 0.12:
            case["deg_type"] = str(rng.choice(["float", "np.int64", "np.float64"]))  # 5.0, np.int64(5), ...
        elif v < 0.2:
            case["deg"] = float(rng.choice(NONINT_DIVISORS))
            case["deg_type"] = "float"
            while n * n_directions(case["deg"]) > cap and n > 50:
                n = max(50, n // 2)
        elif v < 0.26:
            case["deg"] = DEFAULT_DEG_STEP
            case["deg_type"] = "default"  # argument omitted
            while n * n_directions(case["deg"]) > cap and n > 50:
                n = max(50, n // 2)
        if rng.uniform() < 0.2:
            case["layout"] = str(rng.choice(["F", "strided", "float32"]))
        u = rng.uniform()
        if u < 0.45:
            case.update(src="model", model=str(rng.choice(MODEL_NAMES)), pseed=int(rng.integers(0, 6)), n=n)
            case["real_model"] = bool(rng.uniform() < 0.2)
        elif u < 0.9:
            case.update(src="cloud", cloud=str(rng.choice(CLOUD_KINDS)), n=n)
        else:
            # no sample supplied: n = int(100/alpha) drawn from the model (kept affordable)
            lo = 1e-4 if thorough and rng.uniform() < 0.1 else (2e-3 if thorough else 5e-3)
            case.update(src="model", model=str(rng.choice(MODEL_NAMES)), pseed=int(rng.integers(0, 6)),
                        supplied=False, n_arg=None,
                        alpha=float(rng.choice([0.3, 0.01, 0.07, float(10 ** rng.uniform(np.log10(lo), np.log10(0.3)))])))
            if rng.uniform() < 0.25:
                case["n_arg"] = int(rng.choice([50, 333, 1000]))
            nn = case["n_arg"] or int(100 / case["alpha"])
            ok = [d for d in DIVISORS if nn * (360 // d) <= cap]
            case.pop("layout", None)
            if case.get("deg_type") == "default" and nn * n_directions(DEFAULT_DEG_STEP) > cap:
                case["deg_type"] = "int"
            if case["deg"] not in ok and case.get("deg_type") != "default":
                case["deg"] = int(rng.choice(ok[: max(1, len(ok) // 2)])) if ok else 60
                if case.get("deg_type") == "float":
                    case["deg"] = float(case["deg"])
        yield case


def sig(pred):
    return {"entry": ENTRY, "predicate": pred}


def register(ck, recs):
    for rec in recs:
        case = rec["case"]
        nontrivial = (
            rec["impl_err"] is None and rec.get("nvert", 0) >= 6 and rec.get("n", 0) >= 50 and rec.get("distinct_pts", 0) >= 3
        )
        ck.case(case, nontrivial=nontrivial, sample=("sample" not in case))
        ck.count("gen=" + case["gen"])
        ck.count("deg_step=%g" % case["deg"])
        if case.get("deg_type", "int") != "int":
            ck.count("deg_type=" + case["deg_type"])
        if not is_whole(case["deg"]):
            ck.count("non_integer_step_correspondence_only")
        if case.get("layout", "C") != "C":
            ck.count("sample_layout=" + case["layout"])
        if "tol_rel" in rec:
            t = rec["tol_rel"]
            ck.count("oracle_tolerance/scale " + ("<=1e-12" if t <= 1e-12 else "<=1e-10" if t <= 1e-10 else "<=1e-8" if t <= 1e-8 else "<=1e-6" if t <= 1e-6 else ">1e-6 (degenerate polygon)"))
        ck.count("src=" + case.get("src", "?") + (":" + case.get("cloud", case.get("model", "")) if case.get("src") != "explicit" else ""))
        ck.count("supplied" if case.get("supplied", True) else "drawn_by_contour")
        if rec.get("has_ties"):
            ck.count("sample_has_duplicate_points")
        if rec.get("degenerate_pairs"):
            ck.count("model_zero_determinant", rec["degenerate_pairs"])
        if "trig_mismatch" in rec:
            ck.hyp_checked += 1
            if rec["trig_mismatch"]:
                ck.count("scalar_vs_array_trig_mismatch", rec["trig_mismatch"])
        for pred, detail in rec["bad"]:
            ck.fail(sig(pred), case, detail)
        c = rec.get("cmp")
        if c is not None:
            if c[0] == "soft":
                ck.count("bit_mismatch_within_tolerance")
            elif rec["bad"]:
                ck.count("divergence_with_oracle_failure")
            else:
                ck.diverge("direct_sampling", case, c[1])
        elif rec["impl_err"] is None:
            ck.count("bit_exact_match")


def _chunks(lst, k):
    return [lst[i::k] for i in range(k)]


def main(ck):
    rng = np.random.default_rng(ck.seed)
    thorough = ck.tier == "thorough"
    ck.rule = (
        "corpus witnesses (default deg_step 5 and deg_step 6 closing vertex, explicit 50-point cloud with ties, "
        "sample drawn by the contour; deg_step as float / numpy scalar / omitted (default 5), non-integer steps 7.5 and 22.5, Fortran-ordered / strided / float32 samples), "
        "then random cases: every divisor of 360 in [1,60] at least twice (int, float, numpy scalars, default omitted; 8 non-integer exact divisors for the correspondence), "
        "alpha in [1e-4,0.3] incl. both ends, samples drawn from 4 real 2-D virocon model structures with perturbed "
        "parameters or 8 kinds of arbitrary clouds (ties, Cauchy/Pareto tails, lattices, duplicates, zeros), n from 50 to "
        + ("200000 (1e6 when drawn for alpha=1e-4)" if thorough else "20000")
        + "; non-trivial = no exception, >= 6 vertices, n >= 50, >= 3 distinct sample points; distinct by SHA1 of the case"
    )
    ck.assumptions = [
        "np.cos/np.sin values cross to the model as TABLE leaves (same numpy calls as the code; scalar and array calls agree bitwise, checked per case)",
        "theorems are over exact ordered fields; the Float run of the same model functions is compared bit for bit with the code",
        "np.quantile is re-derived by the model (quantile7) and compared with numpy on the projections and on probe vectors",
    ]
    ck.partial = {
        "fraction alpha beyond each edge": "theorem exceed_fraction_bounds (any ordered field) + counted on the real output for every edge",
        "drawn sample follows the model": "not part of this check (C07); only n = int(100/alpha) and identity of the stored sample are checked",
        "number of directions at Float (hypothesis hn: the rounded arange has at least N+1 entries)": "arange_exact_count proves N+1 over exact fields; at Float it is "
        "observed per case: the model's grid equals numpy's and the oracle demands exactly round(360/deg_step) vertices",
        "first direction / coordinates[0]": "not fixed by the property; a half-turn shifted polygon consists of the same tangent lines, only the correspondence reports it",
        "steps that divide 360 without being whole numbers (7.5, 22.5, ...)": "correspondence only, the oracle is not evaluated (quantifier: divisors of 360 between 1 and 60)",
    }
    q7_probe(ck, rng, 2000 if thorough else 400)
    cases = list(corpus_cases()) + list(random_cases(rng, 2500 if thorough else 150, 200000 if thorough else 20000, thorough))
    if thorough:
        with multiprocessing.Pool(8) as pool:
            res = pool.map(evaluate, _chunks(cases, 64))
    else:
        res = [evaluate(ch) for ch in _chunks(cases, 8)]
    for recs, nl in res:
        ck.driver.n_lines += nl
        register(ck, recs)
    ck.extra["exhaustive"] = False


def replay(ck, payload):
    case = payload["case"]
    impl = run_impl(case)
    bad = oracle(case, impl)
    for pred, detail in bad:
        print("oracle:", pred, detail)
    if "err" not in impl:
        print("coordinates (last 3):", impl["coords"][-3:].tolist())
        if ck.driver:
            ls, _ = model_lines(case, impl["sample"])
            ans = ck.driver.run(ls)
            print("correspondence:", compare(case, impl, parse_model(ans[0]), impl["sample"]))
    return not bad
