"""Entry point: run.py <Cxx> <quick|thorough>   |   run.py <Cxx> --replay <file>"""
import importlib
import json
import os
import sys
import traceback

sys.path.insert(0, os.path.dirname(os.path.abspath(__file__)))
import core  # noqa: E402


def main():
    if len(sys.argv) < 3:
        print("usage: run.py Cxx quick|thorough | --replay file")
        return 2
    prop = sys.argv[1]
    mod = importlib.import_module(prop.lower())
    seed = int(os.environ.get("VERIF_SEED", "0"))
    if sys.argv[2] == "--replay":
        payload = json.load(open(sys.argv[3]))
        ck = core.Check(prop, "quick", payload.get("seed", seed))
        ck.lean(getattr(mod, "EXTRA_AUDIT_MODULES", ()))
        ok = mod.replay(ck, payload)
        print("REPLAY", "property-holds" if ok else "property-fails")
        return 0 if ok else 1
    tier = sys.argv[2]
    if os.environ.get("VERIF_TIER") in ("quick", "thorough"):
        tier = os.environ["VERIF_TIER"]
    ck = core.Check(prop, tier, seed)
    try:
        ok = ck.lean(getattr(mod, "EXTRA_AUDIT_MODULES", ()))
        if not ok and getattr(ck, "build_log", None) is not None and not getattr(mod, "HANDLES_BUILD_FAILURE", False):
            # the Lean project does not build: nothing is proven and the driver is stale. For hand-written
            # models this can only be a mistake in /verif (the models do not depend on /repo), so it is a
            # machinery error, not a violation. Modules with tables generated from /repo opt in to handle it.
            print("MACHINERY-ERROR lake build failed:\n" + ck.build_log[-1500:])
            return 2
        if ck.driver is None:
            ck.driver = core.Driver() if os.path.exists(core.DRIVER) else None
        mod.main(ck)
    except core.MachineryError as e:
        print("MACHINERY-ERROR", e)
        return 2
    except Exception:
        traceback.print_exc()
        print("MACHINERY-ERROR unexpected exception in harness")
        return 2
    return ck.finish()


if __name__ == "__main__":
    sys.exit(main())
