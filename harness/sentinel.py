"""
Translator by sentinel execution (DESIGN 2.3c), shared by C05 and C11.

The real methods of virocon/distributions.py are executed on symbolic `S` objects that record
an expression tree; scipy.stats methods (`cdf/ppf/pdf/fit` of *every* rv_continuous instance in
the scipy.stats namespace) are replaced, inside this process only, by recorders.  The result is
written as Lean table literals to
    lean/VirVerif/Generated/ParamMap.lean      families, getRows, ctorRows, condRows
    lean/VirVerif/Generated/FitKeywords.lean   scipyShapes, fitRows, lsqRows
(only when the content changed), and `lake build` re-proves the table theorems of
Properties/C05.lean and Properties/C11.lean against them.

Row types and the laws are defined in lean/VirVerif/Model/Families.lean.
"""
import itertools
import math
import os
import types

import numpy as np

import core

GEN_DIR = os.path.join(core.LEAN, "VirVerif", "Generated")


class SentinelBranch(Exception):
    """the code under test inspected the *value* of a symbolic parameter"""


# ---------------------------------------------------------------------------
# symbolic values


class S:
    __array_priority__ = 1e6
    __slots__ = ("op", "args")

    def __init__(self, op, *args):
        self.op = op
        self.args = args

    # --- arithmetic
    def __add__(self, o):
        return S("add", self, lift(o))

    def __radd__(self, o):
        return S("add", lift(o), self)

    def __sub__(self, o):
        return S("sub", self, lift(o))

    def __rsub__(self, o):
        return S("sub", lift(o), self)

    def __mul__(self, o):
        return S("mul", self, lift(o))

    def __rmul__(self, o):
        return S("mul", lift(o), self)

    def __truediv__(self, o):
        return S("div", self, lift(o))

    def __rtruediv__(self, o):
        return S("div", lift(o), self)

    def __pow__(self, o):
        return S("pow", self, lift(o))

    def __rpow__(self, o):
        return S("pow", lift(o), self)

    def __neg__(self):
        return S("neg", self)

    def __pos__(self):
        return self

    _UFUNCS = {
        "exp": ("exp", 1), "log": ("log", 1), "sqrt": ("sqrt", 1), "negative": ("neg", 1),
        "add": ("add", 2), "subtract": ("sub", 2), "multiply": ("mul", 2),
        "divide": ("div", 2), "true_divide": ("div", 2), "power": ("pow", 2),
    }

    def __array_ufunc__(self, ufunc, method, *inputs, **kwargs):
        ent = self._UFUNCS.get(ufunc.__name__)
        if method != "__call__" or ent is None or kwargs or len(inputs) != ent[1]:
            raise SentinelBranch(f"unsupported numpy operation {ufunc.__name__}.{method} on a symbolic parameter")
        return S(ent[0], *[lift(i) for i in inputs])

    # --- anything that looks at the value is outside the table language
    def _branch(self, *a, **k):
        raise SentinelBranch("the code branches on / converts the value of a symbolic parameter")

    __bool__ = __float__ = __int__ = __index__ = __len__ = __iter__ = _branch
    __lt__ = __le__ = __gt__ = __ge__ = _branch

    def __eq__(self, o):
        if isinstance(o, S):
            return same(self, o)
        raise SentinelBranch("comparison of a symbolic parameter with a value")

    def __ne__(self, o):
        return not self.__eq__(o)

    __hash__ = object.__hash__

    def __repr__(self):
        return show(self)


def lift(v):
    if isinstance(v, S):
        return v
    if isinstance(v, (bool, np.bool_)):
        raise SentinelBranch("boolean mixed into parameter arithmetic")
    if isinstance(v, (int, np.integer)):
        return S("int", int(v))
    if isinstance(v, (float, np.floating)):
        f = float(v)
        if f == int(f) and abs(f) < 2**53:
            return S("int", int(f))
        return S("bits", core.f2b(f))
    if isinstance(v, np.ndarray) and v.shape == ():
        return lift(v.item())
    raise SentinelBranch(f"cannot lift {type(v).__name__} into an expression")


def same(a, b):
    if a.op != b.op or len(a.args) != len(b.args):
        return False
    for x, y in zip(a.args, b.args):
        if isinstance(x, S) != isinstance(y, S):
            return False
        if isinstance(x, S):
            if not same(x, y):
                return False
        elif x != y:
            return False
    return True


LEAVES = ("arg", "farg", "expl", "dep", "est", "int", "bits")


def show(e):
    if e.op in LEAVES:
        return f"{e.op}{e.args[0]}" if e.op not in ("int", "bits") else str(e.args[0])
    return e.op + "(" + ", ".join(show(a) for a in e.args) + ")"


def to_lean(e):
    if e.op == "int":
        n = e.args[0]
        return f".int {n}" if n >= 0 else f".int ({n})"
    if e.op in LEAVES:
        return f".{e.op} {e.args[0]}"
    return f".{e.op} " + " ".join("(" + to_lean(a) + ")" for a in e.args)


def evaluate(e, env):
    """numeric value of an expression (translator self-check); env maps (leaf, index) -> float"""
    op = e.op
    if op == "int":
        return float(e.args[0])
    if op == "bits":
        return core.b2f(e.args[0])
    if op in LEAVES:
        return env[(op, e.args[0])]
    v = [evaluate(a, env) for a in e.args]
    if op == "add":
        return v[0] + v[1]
    if op == "sub":
        return v[0] - v[1]
    if op == "mul":
        return v[0] * v[1]
    if op == "div":
        return v[0] / v[1]
    if op == "pow":
        return v[0] ** v[1]
    if op == "neg":
        return -v[0]
    if op == "exp":
        return float(np.exp(v[0]))
    if op == "log":
        return float(np.log(v[0]))
    if op == "sqrt":
        return float(np.sqrt(v[0]))
    raise ValueError(op)


# ---------------------------------------------------------------------------
# families


def _scipy_subclasses(vd):
    """three ScipyDistribution subclasses, created the two documented ways (they are part of C05/C11's
    quantifier; virocon ships the base class only): by `scipy_dist_name` (gamma: one shape, beta: two shapes)
    and by `scipy_dist` (Gumbel: a scipy distribution WITHOUT shape parameters, only loc and scale)"""
    import scipy.stats as sts

    out = []
    for cname, dname in (("GammaScipyDistribution", "gamma"), ("BetaScipyDistribution", "beta")):
        out.append(type(cname, (vd.ScipyDistribution,), {"scipy_dist_name": dname}))
    out.append(type("GumbelScipyDistribution", (vd.ScipyDistribution,), {"scipy_dist": sts.gumbel_r}))
    return out


# documented parameter order (constructor / positional call order, and the order of the Lean formulas' arguments);
# independent of what the code under test reports as `.parameters`: for a ScipyDistribution subclass the documented
# order is scipy's "(shape(s), loc, scale)"
DOC_PARAMS = {
    "WeibullDistribution": ["alpha", "beta", "gamma"], "LogNormalDistribution": ["mu", "sigma"],
    "NormalDistribution": ["mu", "sigma"], "LogNormalNormFitDistribution": ["mu_norm", "sigma_norm"],
    "ExponentiatedWeibullDistribution": ["alpha", "beta", "delta"],
    "GeneralizedGammaDistribution": ["m", "c", "lambda_"], "VonMisesDistribution": ["kappa", "mu"],
    "GammaScipyDistribution": ["a", "loc", "scale"], "BetaScipyDistribution": ["a", "b", "loc", "scale"],
    "GumbelScipyDistribution": ["loc", "scale"],
}

_FAMS = {}
# family name -> (predicate, text) if the family cannot be driven by name on the tree under test: the plain constructor
# `Family()` raises ("constructs"), or its parameter NAMES are not the documented ones ("documented_parameters").
# Reported once by C05 / C11; the concrete streams skip such a family (the generated tables still describe it).
FAMILY_ERRORS = {}


def families():
    """[(name, cls, [param names])] in a fixed order"""
    import virocon.distributions as vd

    key = id(vd)
    if key not in _FAMS:
        classes = [
            vd.WeibullDistribution, vd.LogNormalDistribution, vd.NormalDistribution,
            vd.LogNormalNormFitDistribution, vd.ExponentiatedWeibullDistribution,
            vd.GeneralizedGammaDistribution, vd.VonMisesDistribution,
        ] + _scipy_subclasses(vd)
        fams = []
        for c in classes:
            try:
                ps = list(c().parameters)
            except Exception as e:  # noqa: BLE001  (reported by C05 `constructs`; the table rows of the family all raise)
                FAMILY_ERRORS[c.__name__] = ("constructs", f"{c.__name__}() raises {type(e).__name__}: " + str(e)[:160])
                ps = list(DOC_PARAMS[c.__name__])
            if sorted(ps) != sorted(DOC_PARAMS[c.__name__]):
                FAMILY_ERRORS[c.__name__] = ("documented_parameters", f"{c.__name__}().parameters lists {ps}, the "
                                             f"documented parameters are {DOC_PARAMS[c.__name__]}")
            fams.append((c.__name__, c, ps))
        _FAMS[key] = fams
    return _FAMS[key]


def live_families():
    """the families whose plain constructor works on the tree under test (the others are reported once, by name)"""
    return [f for f in families() if f[0] not in FAMILY_ERRORS]


def family(name):
    for n, c, p in families():
        if n == name:
            return c, p
    raise KeyError(name)


def subsets(k):
    """same order as Lean's `subsetsBelow k`"""
    if k == 0:
        return [[]]
    prev = subsets(k - 1)
    return prev + [s + [k - 1] for s in prev]


# ---------------------------------------------------------------------------
# recorders


class _MathShim(types.ModuleType):
    """`math` as seen by virocon.distributions during a sentinel run: exp/log/sqrt accept S"""

    def __init__(self):
        super().__init__("math")

    def __getattr__(self, name):
        return getattr(math, name)

    @staticmethod
    def exp(x):
        return S("exp", x) if isinstance(x, S) else math.exp(x)

    @staticmethod
    def log(x, *a):
        return S("log", x) if isinstance(x, S) and not a else math.log(x, *a)

    @staticmethod
    def sqrt(x):
        return S("sqrt", x) if isinstance(x, S) else math.sqrt(x)


class _Sample:
    """symbolic data sample: only the statistics virocon computes itself are answerable"""

    def mean(self, *a, **k):
        return S("est", 100)

    def std(self, *a, **k):
        return S("est", 101)


class Recording:
    """context manager: replaces cdf/ppf/pdf/fit of every scipy.stats rv_continuous instance"""

    METHODS = ("cdf", "ppf", "pdf", "fit", "nnlf")

    def __init__(self):
        self.calls = []

    def __enter__(self):
        import scipy.stats as sts
        import virocon.distributions as vd

        self._vd = vd
        self._patched = []
        for name, obj in vars(sts).items():
            if isinstance(obj, sts.rv_continuous) and name == getattr(obj, "name", None):
                for m in self.METHODS:
                    if m in vars(obj):
                        continue
                    setattr(obj, m, self._make(obj, m))
                    self._patched.append((obj, m))
        self._math = vd.math
        vd.math = _MathShim()
        return self

    def __exit__(self, *exc):
        for obj, m in self._patched:
            try:
                delattr(obj, m)
            except AttributeError:
                pass
        self._vd.math = self._math
        return False

    def _make(self, obj, m):
        rec = self

        def recorder(x, *args, **kwargs):
            rec.calls.append((obj.name, m, x, args, kwargs))
            if m == "fit":
                n = (len(obj.shapes.split(",")) if obj.shapes else 0) + 2
                return tuple(S("est", j) for j in range(n))
            if m == "nnlf":  # likelihood of a symbolic estimate: a constant (restart loops stop at once)
                return 0.0
            return np.full(np.shape(x) if isinstance(x, (np.ndarray, list, tuple, float, int)) else (), 0.25)

        return recorder


# ---------------------------------------------------------------------------
# table rows (plain dicts; `None` result = raised)


def _mk_instance(cls, params, fixed, given=None, order=0):
    given = list(range(len(params))) if given is None else given
    vals = {params[p]: S("arg", p) for p in given}
    fx = {"f_" + params[p]: S("farg", p) for p in fixed}
    if order == 0:
        return cls(**vals, **fx)
    if order == 1:
        return cls(**fx, **vals)
    if order == 3:
        # every free parameter explicitly declared NOT fixed (`f_<q>=None`, the documented default) next to its value
        free = {"f_" + params[q]: None for q in range(len(params)) if q not in fixed}
        return cls(**vals, **fx, **free)
    return cls(*[S("arg", p) for p in given], **fx)


def _call_args(params, expl, mode):
    if mode == 0:
        return (), {params[p]: S("expl", p) for p in expl}
    if mode == 3:
        # mixed: the first explicit parameter by position (None placeholders before it), the others by name
        first = min(expl)
        return (tuple(S("expl", p) if p == first else None for p in range(first + 1)),
                {params[p]: S("expl", p) for p in expl if p != first})
    last = max(expl) + 1 if expl else 0
    return tuple(S("expl", p) if p in expl else None for p in range(last)), {}


X_PROBE = np.array([0.5, 1.5])


def get_rows():
    rows = []
    for name, cls, params in families():
        k = len(params)
        full = list(range(k))
        combos = []
        for E in subsets(k):
            for mode in (0, 1):
                combos.append(([], E, mode))
            if len(E) >= 2:
                combos.append(([], E, 3))
        for F in subsets(k):
            if F:
                combos.append((F, [], 0))
                combos.append((F, full, 0))
                combos.append((F, full, 2))
        seen = set()
        for meth in ("cdf", "icdf", "pdf"):
            for F, E, mode in combos:
                key = (meth, tuple(F), tuple(E), mode)
                if key in seen:
                    continue
                seen.add(key)
                rows.append(_get_row(name, cls, params, meth, F, E, mode))
    return rows


def _get_row(name, cls, params, meth, F, E, mode):
    import virocon.distributions as vd

    row = {"fam": name, "meth": meth, "fixed": F, "expl": E, "mode": mode, "result": None, "exc": None}
    try:
        with Recording() as rec:
            if mode == 2:
                # template with F fixed (no plain values: ConditionalDistribution reads f_<p>),
                # dependence function for every other parameter
                inst = cls(**{"f_" + params[p]: S("farg", p) for p in F})
                deps = {params[p]: (lambda given, p=p: S("dep", p)) for p in range(len(params)) if p not in F}
                cd = vd.ConditionalDistribution(inst, deps)
                getattr(cd, meth)(X_PROBE, np.array([1.0, 2.0]))
            else:
                inst = _mk_instance(cls, params, F)
                a, kw = _call_args(params, E, mode)
                getattr(inst, meth)(X_PROBE, *a, **kw)
        calls = [c for c in rec.calls]
        if len(calls) != 1:
            row["exc"] = f"{len(calls)} scipy calls recorded"
            return row
        dist, m, x, args, kwargs = calls[0]
        slots = [lift(a) for a in args]
        if kwargs:
            row["exc"] = "keyword arguments passed to scipy: " + ",".join(kwargs)
            return row
        row["result"] = (dist, m, slots)
    except Exception as e:  # noqa: BLE001  (a raising row is data)
        row["exc"] = type(e).__name__ + ": " + str(e)[:100]
    return row


def ctor_rows():
    rows = []
    for name, cls, params in families():
        k = len(params)
        full = list(range(k))
        for F in subsets(k):
            for given, order in ((full, 0), (full, 1), (full, 2), (full, 3), ([], 0)):
                row = {"fam": name, "given": given, "fixed": F, "order": order, "result": None, "exc": None}
                try:
                    inst = _mk_instance(cls, params, F, given, order)
                    ps = [lift(v) for v in inst.parameters.values()]
                    fs = []
                    for p in params:
                        v = getattr(inst, "f_" + p)
                        fs.append(None if v is None else lift(v))
                    row["result"] = (ps, fs)
                except Exception as e:  # noqa: BLE001
                    row["exc"] = type(e).__name__ + ": " + str(e)[:100]
                rows.append(row)
    return rows


def cond_rows():
    import virocon.distributions as vd

    rows = []
    for name, cls, params in families():
        for F in subsets(len(params)):
            if not F:
                continue
            row = {"fam": name, "fixed": F, "result": None, "exc": None}
            try:
                inst = cls(**{"f_" + params[p]: S("farg", p) for p in F})
                deps = {params[p]: (lambda given, p=p: S("dep", p)) for p in range(len(params)) if p not in F}
                cd = vd.ConditionalDistribution(inst, deps)
                vals = cd._get_param_values(np.array([1.0, 2.0]))
                row["result"] = [lift(vals[p]) for p in params]
            except Exception as e:  # noqa: BLE001
                row["exc"] = type(e).__name__ + ": " + str(e)[:100]
            rows.append(row)
    return rows


def fit_rows():
    rows = []
    for name, cls, params in families():
        for F in subsets(len(params)):
            row = {"fam": name, "fixed": F, "outcome": None, "after": [], "exc": None}
            try:
                with Recording() as rec:
                    inst = _mk_instance(cls, params, F)
                    inst._fit_mle(_Sample())
                    after = [lift(v) for v in inst.parameters.values()]
                fits = [c for c in rec.calls if c[1] == "fit"]
                # likelihood evaluations (pdf / nnlf) around the fit are not the keyword translation; several
                # fit calls (restarts) are one translation if they pin the same slots at the same values
                if not fits:
                    row["outcome"] = ("notCalled",)
                else:
                    def pins(c):
                        return (c[0], sorted((k, show(lift(v))) for k, v in c[4].items() if k not in ("loc", "scale")))

                    if any(pins(c) != pins(fits[0]) for c in fits[1:]):
                        raise RuntimeError("fit called with different fixing keywords: "
                                           + "; ".join(str(pins(c)) for c in fits))
                    dist, _, sample, args, kwargs = fits[0]
                    if not isinstance(sample, _Sample):
                        raise RuntimeError("fit was not handed the sample")
                    row["outcome"] = ("called", dist, [lift(a) for a in args],
                                      [(k, lift(v)) for k, v in kwargs.items()])
                row["after"] = after
            except Exception as e:  # noqa: BLE001
                row["outcome"] = ("raised", type(e).__name__)
                row["exc"] = type(e).__name__ + ": " + str(e)[:100]
            rows.append(row)
    return rows


LSQ_SAMPLE = [0.31, 0.52, 0.58, 0.74, 0.81, 0.95, 1.02, 1.1, 1.27, 1.33, 1.49, 1.62, 1.8, 2.05, 2.4, 3.1]
LSQ_VALUES = [1.7, 1.3, 2.5, 0.9]


def lsq_rows():
    """concrete runs of fit(data, 'lsq') (the least-squares code cannot run on symbols)"""
    rows = []
    for name, cls, params in families():
        for F in subsets(len(params)):
            fx = {"f_" + params[p]: LSQ_VALUES[p] for p in F}
            row = {"fam": name, "fixed": F, "ok": False, "kept": False, "exc": ""}
            try:
                inst = cls(**fx)
                with np.errstate(all="ignore"):
                    inst.fit(np.array(LSQ_SAMPLE), "lsq")
                row["ok"] = True
                ps = inst.parameters
                row["kept"] = all(
                    core.f2b(ps[params[p]]) == core.f2b(LSQ_VALUES[p]) for p in F
                ) and all(np.isfinite(float(v)) for v in ps.values())
            except Exception as e:  # noqa: BLE001
                row["exc"] = type(e).__name__
            rows.append(row)
    return rows


def scipy_shapes():
    import scipy.stats as sts

    out = []
    for name, obj in sorted(vars(sts).items()):
        if isinstance(obj, sts.rv_continuous) and name == getattr(obj, "name", None):
            out.append((name, [s.strip() for s in obj.shapes.split(",")] if obj.shapes else []))
    return out


# ---------------------------------------------------------------------------
# Lean output


def _ls(xs):
    return "[" + ", ".join(str(x) for x in xs) + "]"


def _lstr(s):
    return '"' + s.replace("\\", "\\\\").replace('"', '\\"') + '"'


def _lexprs(es):
    return "[" + ", ".join(to_lean(e) for e in es) + "]"


METHS = ("cdf", "icdf", "pdf")


def render_parammap(fams, grows, crows, cdrows):
    fidx = {n: i for i, (n, _, _) in enumerate(fams)}
    o = ["-- generated by harness/sentinel.py from the tree under test; do not edit",
         "import VirVerif.Model.Families", "namespace VirVerif.Generated", "open VirVerif", ""]
    o.append("def families : List Family := [")
    o.append(",\n".join(
        f"  {{ name := {_lstr(n)}, params := [{', '.join(_lstr(p) for p in ps)}] }}" for n, _, ps in fams))
    o.append("]\n")
    o.append("/-- parameter map per family: (scipy distribution, arguments of the plain cdf call) -/")
    o.append("def baseMaps : List (String × List PExpr) := [")
    lines = []
    for n, _, _ in fams:
        b = [r for r in grows if r["fam"] == n and r["meth"] == "cdf" and not r["fixed"] and not r["expl"]
             and r["mode"] == 0 and r["result"] is not None]
        if b:
            lines.append(f"  ({_lstr(b[0]['result'][0])}, {_lexprs(b[0]['result'][2])})")
        else:
            lines.append('  ("<raised>", [])')
    o.append(",\n".join(lines))
    o.append("]\n")
    o.append("def getRows : List GetRow := [")
    lines = []
    for r in grows:
        if r["result"] is None:
            res = "none"
        else:
            d, m, s = r["result"]
            res = f"some ({_lstr(d)}, {_lstr(m)}, {_lexprs(s)})"
        lines.append(
            f"  {{ fam := {fidx[r['fam']]}, meth := {METHS.index(r['meth'])}, fixed := {_ls(r['fixed'])}, "
            f"expl := {_ls(r['expl'])}, mode := {r['mode']}, result := {res} }}")
    o.append(",\n".join(lines))
    o.append("]\n")
    o.append("def ctorRows : List CtorRow := [")
    lines = []
    for r in crows:
        if r["result"] is None:
            res = "none"
        else:
            ps, fs = r["result"]
            fl = "[" + ", ".join("none" if f is None else f"some ({to_lean(f)})" for f in fs) + "]"
            res = f"some ({_lexprs(ps)}, {fl})"
        lines.append(
            f"  {{ fam := {fidx[r['fam']]}, given := {_ls(r['given'])}, fixed := {_ls(r['fixed'])}, "
            f"order := {r['order']}, result := {res} }}")
    o.append(",\n".join(lines))
    o.append("]\n")
    o.append("def condRows : List CondRow := [")
    lines = []
    for r in cdrows:
        res = "none" if r["result"] is None else f"some {_lexprs(r['result'])}"
        lines.append(f"  {{ fam := {fidx[r['fam']]}, fixed := {_ls(r['fixed'])}, result := {res} }}")
    o.append(",\n".join(lines))
    o.append("]\n")
    o.append("end VirVerif.Generated\n")
    return "\n".join(o)


def render_fitkeywords(fams, shapes, frows, lrows):
    fidx = {n: i for i, (n, _, _) in enumerate(fams)}
    o = ["-- generated by harness/sentinel.py from the tree under test; do not edit",
         "import VirVerif.Model.Families", "namespace VirVerif.Generated", "open VirVerif", ""]
    o.append("/-- shape names of the scipy.stats distributions (read from scipy) -/")
    o.append("def scipyShapes : List (String × List String) := [")
    o.append(",\n".join(f"  ({_lstr(n)}, [{', '.join(_lstr(s) for s in ss)}])" for n, ss in shapes))
    o.append("]\n")
    o.append("def fitRows : List FitRow := [")
    lines = []
    for r in frows:
        oc = r["outcome"]
        if oc[0] == "called":
            kws = "[" + ", ".join(f"({_lstr(k)}, {to_lean(v)})" for k, v in oc[3]) + "]"
            ocs = f".called {_lstr(oc[1])} {_lexprs(oc[2])} {kws}"
        elif oc[0] == "notCalled":
            ocs = ".notCalled"
        else:
            ocs = f".raised {_lstr(oc[1])}"
        lines.append(
            f"  {{ fam := {fidx[r['fam']]}, fixed := {_ls(r['fixed'])}, outcome := {ocs}, "
            f"after := {_lexprs(r['after'])} }}")
    o.append(",\n".join(lines))
    o.append("]\n")
    o.append("def lsqRows : List LsqRow := [")
    o.append(",\n".join(
        f"  {{ fam := {fidx[r['fam']]}, fixed := {_ls(r['fixed'])}, ok := {str(r['ok']).lower()}, "
        f"kept := {str(r['kept']).lower()}, exc := {_lstr(r['exc'])} }}" for r in lrows))
    o.append("]\n")
    o.append("end VirVerif.Generated\n")
    return "\n".join(o)


def write_if_changed(path, text):
    if os.path.exists(path) and open(path).read() == text:
        return False
    os.makedirs(os.path.dirname(path), exist_ok=True)
    tmp = path + ".tmp%d" % os.getpid()
    with open(tmp, "w") as f:
        f.write(text)
    os.replace(tmp, path)
    return True


_TABLES = None


def tables():
    """run the translator once per process"""
    global _TABLES
    if _TABLES is None:
        import warnings

        with warnings.catch_warnings():
            warnings.simplefilter("ignore")
            fams = families()
            _TABLES = {
                "families": fams,
                "get": get_rows(),
                "ctor": ctor_rows(),
                "cond": cond_rows(),
                "fit": fit_rows(),
                "lsq": lsq_rows(),
                "shapes": scipy_shapes(),
            }
    return _TABLES


def generate():
    """(re)write the two generated Lean files from the tree under test; returns the tables"""
    t = tables()
    write_if_changed(os.path.join(GEN_DIR, "ParamMap.lean"),
                     render_parammap(t["families"], t["get"], t["ctor"], t["cond"]))
    used = {r["outcome"][1] for r in t["fit"] if r["outcome"][0] == "called"}
    used |= {r["result"][0] for r in t["get"] if r["result"] is not None}
    shapes = [(n, s) for n, s in t["shapes"] if n in used]
    write_if_changed(os.path.join(GEN_DIR, "FitKeywords.lean"),
                     render_fitkeywords(t["families"], shapes, t["fit"], t["lsq"]))
    return t


if __name__ == "__main__":
    t = generate()
    for k in ("get", "ctor", "cond", "fit", "lsq"):
        print(k, len(t[k]), "rows;", sum(1 for r in t[k] if r.get("exc")), "with exception")


# ---------------------------------------------------------------------------
# concrete re-execution of table rows (row -> concrete call on the real code)


def random_theta(rng, name, wide=True):
    """admissible parameter vector of a family, several orders of magnitude (`wide`: scales over 4 decades, shape
    parameters over 2-4 decades incl. scipy's large-kappa branch of the von Mises law; not `wide`: the moderate region in
    which real fits are run).  Location-type parameters (mu, gamma, loc) are exactly 0.0 in a fixed share of the draws:
    a falsy value that has to be honoured like any other."""
    u = rng.uniform

    def lu(a, b):
        return float(10 ** u(a, b))

    if name == "WeibullDistribution":
        g = float(rng.choice([0.0, 0.0, lu(-1, 1), -lu(-1, 1)]))
        return {"alpha": lu(-2, 2) if wide else lu(-0.5, 0.7), "beta": lu(-0.6, 1.6) if wide else lu(-0.3, 0.75),
                "gamma": g}
    if name == "LogNormalDistribution":
        mu = float(rng.choice([u(-3, 3), u(-3, 3), lu(-6, -3), -lu(-6, -3), 0.0])) if wide else float(
            rng.choice([u(-1, 1.5), u(-1, 1.5), u(-1, 1.5), 0.0]))
        return {"mu": mu, "sigma": lu(-2.3, 0.4) if wide else lu(-1.3, 0.4)}
    if name == "NormalDistribution":
        mu = float(rng.choice([1, -1])) * lu(-2, 3) if wide else u(-3, 3)
        if rng.integers(0, 5) == 0:
            mu = 0.0
        return {"mu": mu, "sigma": lu(-2, 2) if wide else lu(-0.5, 0.7)}
    if name == "LogNormalNormFitDistribution":
        m = lu(-1, 2) if wide else lu(-0.3, 1)
        return {"mu_norm": m, "sigma_norm": m * (lu(-2.5, 0.4) if wide else lu(-1.5, 0.4))}
    if name == "ExponentiatedWeibullDistribution":
        if wide:
            return {"alpha": lu(-2, 2), "beta": lu(-0.6, 1.4), "delta": lu(-0.6, 1.7)}
        return {"alpha": lu(-0.5, 0.7), "beta": lu(-0.3, 0.7), "delta": lu(-0.5, 1)}
    if name == "GeneralizedGammaDistribution":
        if wide:
            return {"m": lu(-1, 1.3), "c": lu(-0.6, 0.5), "lambda_": lu(-2, 2)}
        return {"m": lu(-0.3, 1), "c": lu(-0.3, 0.6), "lambda_": lu(-0.7, 0.5)}
    if name == "VonMisesDistribution":
        mu = u(-3, 3) if rng.integers(0, 5) else 0.0
        return {"kappa": lu(-2, 2.5) if wide else lu(-1, 1.5), "mu": mu}
    if name == "GammaScipyDistribution":
        return {"a": lu(-1, 2) if wide else lu(-0.3, 1), "loc": float(rng.choice([0.0, u(-2, 2)])), "scale": lu(-1, 1)}
    if name == "BetaScipyDistribution":
        lo, hi = (-0.3, 1.5) if wide else (-0.3, 0.8)
        return {"a": lu(lo, hi), "b": lu(lo, hi), "loc": float(rng.choice([0.0, u(-2, 2)])),
                "scale": lu(-1, 1)}
    if name == "GumbelScipyDistribution":
        loc = float(rng.choice([0.0, u(-2, 2), lu(-1, 3), -lu(-1, 3)])) if wide else float(rng.choice([0.0, u(-2, 2)]))
        return {"loc": loc, "scale": lu(-2, 2) if wide else lu(-1, 1)}
    raise KeyError(name)


def random_values(rng, name, wide=True):
    """`random_theta` as a list aligned with the parameter numbering the code under test reports for the family
    (`params[p]`), matched BY NAME: a value drawn for `scale` is never handed over as `loc` when the tree under test
    lists its parameters in another order (then the documented-order oracle of C05 speaks, not a nan in the harness)"""
    th = random_theta(rng, name, wide=wide)
    _, params = family(name)
    if sorted(params) == sorted(th):
        return [th[pn] for pn in params]
    return list(th.values())


def run_get_row_concrete(row, arg, farg, expl, dep, x, arrays=False):
    """Execute the call a get-row describes on the real code with concrete numbers.
    arg/farg/expl/dep: lists of floats per parameter number.
    `arrays`: explicit parameters / values of the dependence functions are handed over as ndarrays of the shape of x
    (one value per point, the way ConditionalDistribution is used with an array of conditioning values).
    Returns dict(value=..., exc=...), and the effective parameter dict of the law."""
    import virocon.distributions as vd

    cls, params = family(row.get("fam") or row["family"])
    F, E, mode, meth = row["fixed"], row["expl"], row["mode"], row["meth"]
    out = {"value": None, "exc": None}
    eff = {}
    for p, pn in enumerate(params):
        if mode == 2:
            eff[pn] = farg[p] if p in F else dep[p]
        elif p in E:
            eff[pn] = expl[p]
        elif p in F:
            eff[pn] = farg[p]
        else:
            eff[pn] = arg[p]
    if arrays:
        expl = [None if v is None else np.full(np.shape(x), float(v)) for v in expl]
    try:
        with np.errstate(all="ignore"):
            if mode == 2:
                inst = cls(**{"f_" + params[p]: farg[p] for p in F})
                if arrays:
                    deps = {params[p]: (lambda given, p=p: np.full(np.shape(given), float(dep[p])))
                            for p in range(len(params)) if p not in F}
                else:
                    deps = {params[p]: (lambda given, p=p: dep[p]) for p in range(len(params)) if p not in F}
                cd = vd.ConditionalDistribution(inst, deps)
                out["value"] = getattr(cd, meth)(x, np.full(np.shape(x), 1.0))
            else:
                inst = cls(**{params[p]: arg[p] for p in range(len(params))},
                           **{"f_" + params[p]: farg[p] for p in F})
                if mode == 0:
                    out["value"] = getattr(inst, meth)(x, **{params[p]: expl[p] for p in E})
                elif mode == 3:
                    first = min(E)
                    out["value"] = getattr(inst, meth)(x, *[expl[p] if p == first else None for p in range(first + 1)],
                                                       **{params[p]: expl[p] for p in E if p != first})
                else:
                    last = max(E) + 1 if E else 0
                    out["value"] = getattr(inst, meth)(x, *[expl[p] if p in E else None for p in range(last)])
    except Exception as e:  # noqa: BLE001
        out["exc"] = type(e).__name__ + ": " + str(e)[:120]
    return out, eff


def same_values(a, b, rtol=0.0):
    """nan-aware equality of two results (exact by default)"""
    a = np.asarray(a, dtype=float)
    b = np.asarray(b, dtype=float)
    if a.shape != b.shape:
        return False
    with np.errstate(all="ignore"):
        eq = (a == b) | (np.isnan(a) & np.isnan(b))
        if rtol:
            eq |= np.abs(a - b) <= rtol * np.maximum(np.abs(a), np.abs(b))
    return bool(np.all(eq))
