"""
C19 - evaluation is pure and repeatable; predefined models share no state.

What runs (every invocation, against the tree in VERIF_REPO):
  * random OP SEQUENCES over 2-3 live models (predefined getters, TransformedModel, small custom
    2-D/3-D models), caller arrays (float / int / list / view / Fortran order) and contours:
      pdf, cdf, conditional_cdf/icdf, distribution icdf, marginal_pdf/cdf/icdf (unconditional dims),
      seeded draw_sample, IFORM / ISORM / HDC(explicit limits) / DirectSampling / And / Or contours with
      a supplied sample, calculate_design_conditions, the five plot functions (Agg),
      save_contour_coordinates (temp dir), fit of another model, a predefined getter (+ model construction).
    Around every op the harness takes, of everything reachable from all live roots,
      (a) a deep structural hash per root (ndarray bytes, dict order, nested objects, aliasing shape) - ORACLE;
      (b) the id()-graph (one node per object: mutable flag + ordered fields, atoms hashed, references by id),
          from which the OBSERVED WRITE SET (objects whose own content changed) and the allocations follow.
    (b) is sent to the Lean model (Model/Heap.lean, `heapstep`), which answers: is the observed write set
    inside the op's declared footprint (`admissibleB`), which roots have a write in their reachable
    sub-store (`touchedB`), are the reach certificates / well-formedness / no-capture conditions true,
    how many (mutable) objects does the fitted model share with every other root.
    CORRESPONDENCE: model's touched bits vs (a)'s changed bits; admissibility vs oracle.
  * GETTER PAIRS: id()-graphs of two results of each of the six getters -> `getterpair` (freshness,
    shared mutable objects) vs the Python-side intersection; then fit the first, the second must not change.
  * CONDITIONAL FIT: after every fit, per ConditionalDistribution: template parameters before/after,
    per-interval parameters re-fitted independently on a deep copy of the *old* template, identity
    pattern of `distributions_per_interval` -> `condfit` model.
  * deterministic entry points are evaluated twice and must agree (array_equal, NaN = NaN); for contours every
    attribute of the object, for plots also the label / title / legend texts. The roots are hashed a third time
    BETWEEN the two evaluations (a change the second evaluation undoes is still a change).
  * besides models, caller arrays and contours the roots are: the caller's semantics dict, fit descriptions and
    par_rename dict (`aux`), the description list a model was built from (`desc`), and virocon's own mutable
    state outside of model objects - module globals, class attributes, default argument values (`global`,
    see module_state()). An evaluation that changes any of them fails (caller_argument_unchanged,
    model_description_unchanged, module_state_unchanged).
  * input guises: float / int / list / view / strided / Fortran / non-positive / READ-ONLY arrays (numpy refuses
    any in-place write: "assignment destination is read-only" from an op that was handed a read-only array is a
    failure of caller_array_unchanged even when no value would have changed), tuples of tuples, 0-d arrays;
    probabilities and conditioning values as list / tuple / int / read-only / scalar.
  * custom models draw their families from ALL distribution classes (Weibull, LogNormal, Normal,
    LogNormalNormFit, ExponentiatedWeibull, GeneralizedGamma, VonMises, a ScipyDistribution subclass) and all
    three interval slicers; TransformedModel: pdf, cdf, empirical_cdf(sample=), marginal_icdf(random_state=),
    seeded and unseeded draw_sample, conditional_cdf/icdf/sample, fit.
"""
import copy
import functools
import gc
import hashlib
import json
import os
import shutil
import struct
import tempfile
import time
import types
import warnings

import numpy as np

import core
from core import f2b

TMP_ROOT = os.environ.get("VERIF_TMP", "/var/tmp")

# ---------------------------------------------------------------------------
# atoms, id()-graph nodes, deep structural hash


def _h63(b):
    return int.from_bytes(hashlib.blake2b(b, digest_size=8).digest(), "big") >> 1


_SIMPLE_ATOMS = (
    type(None), bool, int, str, bytes, complex, type, types.BuiltinFunctionType, types.ModuleType,
    types.MethodDescriptorType, types.WrapperDescriptorType, types.BuiltinMethodType,
    np.dtype, np.ufunc, range, slice, type(Ellipsis), type(NotImplemented),
)


def atom_token(o, _depth=0):
    """canonical bytes of an immutable value that may be shared freely, else None"""
    if isinstance(o, float):
        return b"f" + struct.pack("<d", o)
    if isinstance(o, np.generic):
        return b"g" + o.dtype.str.encode() + o.tobytes()
    if isinstance(o, _SIMPLE_ATOMS):
        if isinstance(o, (type, types.ModuleType)):
            return b"T" + (getattr(o, "__module__", "") or "").encode() + b"." + getattr(
                o, "__qualname__", getattr(o, "__name__", repr(o))).encode()
        if isinstance(o, (types.BuiltinFunctionType, np.ufunc, types.MethodDescriptorType,
                          types.WrapperDescriptorType)):
            return b"B" + getattr(o, "__name__", repr(o)).encode()
        return type(o).__name__.encode() + b":" + repr(o).encode()
    if type(o).__name__ == "_ArrayFunctionDispatcher" and (type(o).__module__ or "").startswith("numpy"):
        # numpy's public functions (np.median, the default `reference` of PointsPerIntervalSlicer): library callables
        return b"B" + (getattr(o, "__module__", "") or "").encode() + b"." + getattr(o, "__qualname__", repr(o)).encode()
    if (type(o).__module__ or "").startswith("scipy.stats.") and hasattr(o, "_parse_args") and hasattr(o, "name"):
        # scipy.stats distribution generators (sts.gamma, ...): library singletons a ScipyDistribution refers to
        return b"S" + type(o).__module__.encode() + b"." + type(o).__qualname__.encode() + b":" + str(o.name).encode()
    if isinstance(o, types.FunctionType):
        if _depth > 6:
            return None
        parts = [b"F", (o.__module__ or "").encode(), o.__qualname__.encode(),
                 hashlib.blake2b(o.__code__.co_code, digest_size=8).digest()]
        extra = list(o.__defaults__ or ()) + list((o.__kwdefaults__ or {}).values())
        for c in o.__closure__ or ():
            try:
                extra.append(c.cell_contents)
            except ValueError:
                extra.append(None)
        for x in extra:
            t = atom_token(x, _depth + 1)
            if t is None:
                return None
            parts.append(t)
        return b"|".join(parts)
    if isinstance(o, (tuple, frozenset)):
        if _depth > 6:
            return None
        items = list(o) if isinstance(o, tuple) else sorted(o, key=repr)
        parts = [b"t" if isinstance(o, tuple) else b"z"]
        for x in items:
            t = atom_token(x, _depth + 1)
            if t is None:
                return None
            parts.append(t)
        return b"(" + b",".join(parts) + b")"
    return None


def _array_atoms(a):
    meta = ("nd:%s:%s" % (a.dtype.str, a.shape)).encode()
    if a.dtype == object:
        return meta, None
    return meta, hashlib.blake2b(np.ascontiguousarray(a).tobytes(), digest_size=8).digest()


def _shallow_key(o):
    """order for set elements that does not recurse (sets of objects may sit on reference cycles)"""
    a = atom_token(o)
    if a is not None:
        return b"0" + a
    parts = [b"1", type(o).__qualname__.encode()]
    d = getattr(o, "__dict__", None)
    if isinstance(d, dict):
        for k, v in d.items():
            t = atom_token(v)
            parts.append(str(k).encode() + b"=" + (t if t is not None else type(v).__name__.encode()))
        p = d.get("parameters")
        if isinstance(p, dict):
            parts.append(repr(sorted((str(k), repr(v)) for k, v in p.items())).encode())
    return b"|".join(parts)


def _set_items(o):
    return list(o) if len(o) <= 1 else sorted(o, key=_shallow_key)


def children_of(o):
    """(mutable, [child values in canonical order]) for a non-atom; children are python values"""
    if isinstance(o, (tuple, frozenset)):
        return False, (list(o) if isinstance(o, tuple) else _set_items(o))
    if isinstance(o, types.FunctionType):
        ch = [o.__qualname__] + list(o.__defaults__ or ()) + list((o.__kwdefaults__ or {}).values())
        for c in o.__closure__ or ():
            try:
                ch.append(c.cell_contents)
            except ValueError:
                ch.append(None)
        return False, ch
    if isinstance(o, types.MethodType):
        return False, [o.__func__, o.__self__]
    if isinstance(o, functools.partial):
        return True, ["partial", o.func, o.args, o.keywords] + [x for kv in vars(o).items() for x in kv]
    if isinstance(o, np.ndarray):
        meta, dig = _array_atoms(o)
        ch = [meta]
        if dig is None:
            ch += list(o.ravel())
        else:
            ch.append(dig)
        if isinstance(o.base, np.ndarray):
            ch.append(o.base)
        return True, ch
    if isinstance(o, dict):
        return True, ["dict"] + [x for kv in o.items() for x in kv]
    if isinstance(o, list):
        return True, ["list"] + list(o)
    if isinstance(o, (set,)):
        return True, ["set"] + _set_items(o)
    if isinstance(o, (np.random.Generator, np.random.BitGenerator)):
        bg = o.bit_generator if isinstance(o, np.random.Generator) else o
        return True, ["rng", repr(sorted(bg.state.items(), key=lambda kv: kv[0]))]
    d = getattr(o, "__dict__", None)
    if isinstance(d, dict) or hasattr(type(o), "__slots__"):
        ch = ["inst", type(o)]
        if isinstance(d, dict):
            ch += [x for kv in d.items() for x in kv]
        for cls in type(o).__mro__:
            for sl in getattr(cls, "__slots__", ()) or ():
                if sl in ("__dict__", "__weakref__"):
                    continue
                if hasattr(o, sl):
                    ch += [sl, getattr(o, sl)]
        return True, ch
    return True, ["opaque", type(o), repr(o)]


def deep_hash(root):
    """structural hash: ndarray bytes, dict order, nested objects, aliasing shape (back references)"""
    h = hashlib.blake2b(digest_size=16)
    memo = {}
    stack = [root]
    # iterative pre-order so that deep nests do not hit the recursion limit
    while stack:
        o = stack.pop()
        if isinstance(o, _End):
            h.update(b")")
            continue
        a = atom_token(o)
        if a is not None:
            h.update(b"A" + a + b";")
            continue
        k = id(o)
        if k in memo:
            h.update(b"R%d;" % memo[k])
            continue
        memo[k] = len(memo)
        mut, ch = children_of(o)
        h.update(b"(" + (b"m" if mut else b"i") + type(o).__name__.encode() + b"%d:" % len(ch))
        stack.append(_END)
        stack.extend(reversed(ch))
    return h.hexdigest()


class _End:
    pass


_END = _End()


class Heap:
    """persistent numbering of python objects (kept alive) + their last observed node content"""

    def __init__(self):
        self.ids = {}
        self.objs = []
        self.nodes = []

    def oid(self, o):
        k = id(o)
        i = self.ids.get(k)
        if i is None:
            i = len(self.objs)
            self.ids[k] = i
            self.objs.append(o)
        return i

    def _field(self, v):
        a = atom_token(v)
        if a is not None:
            return "i%d" % _h63(a)
        return "r%d" % self.oid(v)

    def scan(self, roots):
        """re-observe every numbered object and everything reachable from `roots`.
        returns (n_before, writes [(id, node)], allocs [node]) and updates self.nodes"""
        n_before = len(self.nodes)
        for r in roots:
            if atom_token(r) is None:
                self.oid(r)
        new_nodes = []
        i = 0
        while i < len(self.objs):
            mut, ch = children_of(self.objs[i])
            new_nodes.append((1 if mut else 0, tuple(self._field(c) for c in ch)))
            i += 1
        writes = [(j, new_nodes[j]) for j in range(n_before) if new_nodes[j] != self.nodes[j]]
        allocs = new_nodes[n_before:]
        self.nodes = new_nodes
        return n_before, writes, allocs

    def reach(self, root):
        """python-side reachability (ids) in the current nodes"""
        seen = set()
        st = [self.ids[id(root)]]
        while st:
            o = st.pop()
            if o in seen:
                continue
            seen.add(o)
            for f in self.nodes[o][1]:
                if f[0] == "r":
                    st.append(int(f[1:]))
        return seen


def reach_nodes(nodes, root_ids):
    seen = set()
    st = list(root_ids)
    while st:
        o = st.pop()
        if o in seen or o >= len(nodes):
            continue
        seen.add(o)
        for f in nodes[o][1]:
            if f[0] == "r":
                st.append(int(f[1:]))
    return seen


def node_tokens(node):
    return [str(node[0]), str(len(node[1]))] + list(node[1])


def store_tokens(nodes):
    t = [str(len(nodes))]
    for n in nodes:
        t += node_tokens(n)
    return t


def parse_kv(ans):
    t = ans.split()
    if not t or t[0] != "OK":
        return None
    out = {}
    for tok in t[1:]:
        k, _, v = tok.partition("=")
        out[k] = v
    return out


def ints(v):
    return [] if v in ("-", "") else [int(x) for x in v.split(",")]


# ---------------------------------------------------------------------------
# models


def _V():
    import virocon
    from virocon import predefined  # noqa: F401

    return virocon


V = _V()
GETTERS = ["get_DNVGL_Hs_Tz", "get_DNVGL_Hs_U", "get_OMAE2020_Hs_Tz", "get_OMAE2020_V_Hs",
           "get_Windmeier_EW_Hs_S", "get_Nonzero_EW_Hs_S"]


def _setdep(df, vals):
    df.parameters = dict(zip(df.parameters.keys(), vals))


def parametrize(k, m, jit=1.0):
    """plausible published-like parameter values for the predefined structures (scaled by jit)"""
    d = m.distributions
    cp = d[1].conditional_parameters
    if k == 0:
        d[0].alpha, d[0].beta, d[0].gamma = 2.776 * jit, 1.471, 0.8888
        _setdep(cp["mu"], [0.1, 1.489, 0.1901])
        _setdep(cp["sigma"], [0.04, 0.1748, -0.2243])
    elif k == 1:
        d[0].alpha, d[0].beta, d[0].gamma = 2.776 * jit, 1.471, 0.8888
        _setdep(cp["alpha"], [2.58, 0.12, 1.6])
        _setdep(cp["beta"], [4.6, 2.05, 0.75])
    elif k == 2:
        d[0].alpha, d[0].beta, d[0].delta = 0.207 * jit, 0.684, 7.79
        _setdep(cp["mu"], [3.62, 5.77, 0.0])
        _setdep(cp["sigma"], [0.001, 0.324, 0.404])
    elif k == 3:
        d[0].alpha, d[0].beta, d[0].delta = 10.0 * jit, 2.42, 0.761
        _setdep(cp["alpha"], [0.488, 0.0114, 2.03])
        _setdep(cp["beta"], [0.714, 1.70, -0.304, 8.77])
    else:
        d[0].alpha, d[0].beta, d[0].delta = 0.9 * jit, 1.2, 2.0
        _setdep(cp["alpha"], [0.07, 0.4])
        _setdep(cp["beta"], [4.0, 0.6])


# dependence callables of the custom models (module level: atoms, may be shared)
def _power3(x, a, b, c):
    return a + b * x**c


def _exp3(x, a, b, c):
    return a + b * np.exp(c * x)


def _lin2(x, a, b):
    return a + b * x


CUSTOM_DEPS = {"power3": _power3, "exp3": _exp3, "lin2": _lin2}


def _u(rng, lo, hi):
    return float(rng.uniform(lo, hi))


def _uncond_params(rng, fam, first):
    if fam == "Weibull":
        return ({"alpha": _u(rng, 1.5, 3.0), "beta": _u(rng, 1.2, 2.2), "gamma": float(rng.choice([0.0, 0.5]))} if first else
                {"alpha": _u(rng, 1, 3), "beta": _u(rng, 1.2, 2.5), "gamma": 0.0})
    if fam == "LogNormal":
        return {"mu": _u(rng, 0.5, 1.0 if first else 1.5), "sigma": _u(rng, 0.2, 0.5)}
    if fam == "ExponentiatedWeibull":
        return {"alpha": _u(rng, 0.8, 1.5), "beta": _u(rng, 1.0, 1.5), "delta": _u(rng, 1.5, 3.0)}
    if fam == "GeneralizedGamma":
        return {"m": _u(rng, 1.5, 2.5), "c": _u(rng, 1.1, 1.6), "lambda_": _u(rng, 0.6, 1.0)}
    if fam == "ScipyGamma":
        return {"a": _u(rng, 2.0, 3.0), "loc": 0.0, "scale": _u(rng, 1.0, 1.5)}
    if fam == "Normal":
        return {"mu": _u(rng, 4.0, 6.0), "sigma": _u(rng, 0.8, 1.2)}
    if fam == "VonMises":
        return {"kappa": _u(rng, 0.8, 2.0), "mu": _u(rng, 0.5, 2.0)}
    raise KeyError(fam)


def _cond_dim(rng, fam, cond):
    """a conditional dimension: the template's family, its fixed parameters and its dependence functions"""
    if fam == "LogNormal":
        return {"family": fam, "cond": cond, "deps": {
            "mu": ["power3", [_u(rng, 0.5, 1.2), _u(rng, 0.2, 0.8), _u(rng, 0.2, 0.6)]],
            "sigma": ["exp3", [_u(rng, 0.03, 0.08), _u(rng, 0.1, 0.25), _u(rng, -0.4, -0.1)]]}}
    if fam == "Weibull":
        return {"family": fam, "cond": cond, "fixed": {"gamma": 0.0}, "deps": {
            "alpha": ["lin2", [_u(rng, 1.5, 3.0), _u(rng, 0.2, 0.8)]],
            "beta": ["power3", [_u(rng, 1.5, 3.0), _u(rng, 0.1, 0.5), _u(rng, 0.5, 1.0)]]}}
    if fam == "Normal":
        return {"family": fam, "cond": cond, "deps": {
            "mu": ["lin2", [_u(rng, 2.5, 3.5), _u(rng, 0.8, 1.4)]],
            "sigma": ["exp3", [_u(rng, 0.2, 0.4), _u(rng, 0.3, 0.6), _u(rng, -0.3, -0.1)]]}}
    if fam == "LogNormalNormFit":
        return {"family": fam, "cond": cond, "deps": {
            "mu_norm": ["power3", [_u(rng, 1.5, 2.5), _u(rng, 0.7, 1.2), _u(rng, 0.6, 0.9)]],
            "sigma_norm": ["exp3", [_u(rng, 0.15, 0.3), _u(rng, 0.4, 0.7), _u(rng, -0.3, -0.1)]]}}
    if fam == "GeneralizedGamma":
        return {"family": fam, "cond": cond, "fixed": {"c": 1.5}, "deps": {
            "m": ["lin2", [_u(rng, 1.2, 1.8), _u(rng, 0.1, 0.3)]],
            "lambda_": ["exp3", [_u(rng, 0.2, 0.4), _u(rng, 0.4, 0.7), _u(rng, -0.2, -0.05)]]}}
    if fam == "ExponentiatedWeibull":
        return {"family": fam, "cond": cond, "fixed": {"delta": 2.0}, "deps": {
            "alpha": ["lin2", [_u(rng, 0.6, 1.0), _u(rng, 0.2, 0.4)]],
            "beta": ["power3", [_u(rng, 0.9, 1.2), _u(rng, 0.1, 0.3), _u(rng, 0.4, 0.6)]]}}
    if fam == "ScipyGamma":
        return {"family": fam, "cond": cond, "fixed": {"loc": 0.0}, "deps": {
            "a": ["lin2", [_u(rng, 1.8, 2.4), _u(rng, 0.2, 0.4)]],
            "scale": ["exp3", [_u(rng, 0.4, 0.6), _u(rng, 0.4, 0.6), _u(rng, -0.2, -0.05)]]}}
    raise KeyError(fam)


FIRST_FAMILIES = ["Weibull", "Weibull", "ExponentiatedWeibull", "GeneralizedGamma", "LogNormal", "ScipyGamma"]
UNCOND_FAMILIES = ["LogNormal", "Weibull", "VonMises", "Normal", "GeneralizedGamma"]
COND_FAMILIES = ["LogNormal", "Weibull", "Normal", "LogNormalNormFit", "GeneralizedGamma", "ExponentiatedWeibull", "ScipyGamma"]


def random_custom_spec(rng):
    """2-D / 3-D models over all distribution families of virocon (Weibull, LogNormal, Normal, LogNormalNormFit,
    ExponentiatedWeibull, GeneralizedGamma, VonMises, a ScipyDistribution subclass) and all three interval slicers"""
    n_dim = int(rng.choice([2, 3]))
    f0 = str(rng.choice(FIRST_FAMILIES))
    dims = [{"family": f0, "cond": None, "params": _uncond_params(rng, f0, True)}]
    for i in range(1, n_dim):
        cond = None if (i == 2 and rng.integers(0, 3) == 0) else int(rng.integers(0, i))
        if cond is None:
            fam = str(rng.choice(UNCOND_FAMILIES))
            dims.append({"family": fam, "cond": None, "params": _uncond_params(rng, fam, False)})
        else:
            dims.append(_cond_dim(rng, str(rng.choice(COND_FAMILIES)), cond))
    return {"kind": "custom", "dims": dims, "n_int": int(rng.choice([3, 4, 5])),
            "slicer": str(rng.choice(["number", "number", "points", "width"])), "ppi": int(rng.choice([100, 150])),
            "width": _u(rng, 0.6, 1.0)}


class ScipyGammaDistribution(V.ScipyDistribution):
    """a user-defined family the documented way: subclass ScipyDistribution and name the scipy distribution"""
    scipy_dist_name = "gamma"


def _families():
    from virocon.distributions import LogNormalNormFitDistribution

    return {"Weibull": V.WeibullDistribution, "LogNormal": V.LogNormalDistribution, "Normal": V.NormalDistribution,
            "LogNormalNormFit": LogNormalNormFitDistribution, "ExponentiatedWeibull": V.ExponentiatedWeibullDistribution,
            "GeneralizedGamma": V.GeneralizedGammaDistribution, "VonMises": V.VonMisesDistribution,
            "ScipyGamma": ScipyGammaDistribution}


def _slicer(spec):
    kind = spec.get("slicer", "number")
    if kind == "points":
        return V.PointsPerIntervalSlicer(int(spec.get("ppi", 100)), min_n_points=10)
    if kind == "width":
        return V.WidthOfIntervalSlicer(float(spec.get("width", 0.8)), min_n_points=10)
    return V.NumberOfIntervalsSlicer(spec["n_int"], min_n_points=10)


def build_custom(spec):
    fam = _families()
    descs = []
    for d in spec["dims"]:
        cls = fam[d["family"]]
        sl = _slicer(spec)
        if d["cond"] is None:
            descs.append({"distribution": cls(**d["params"]), "intervals": sl})
        else:
            pars = {}
            for name, (kind, vals) in d["deps"].items():
                bounds = [(0, None)] + [(None, None)] * (len(vals) - 1)
                df = V.DependenceFunction(CUSTOM_DEPS[kind], bounds=bounds)
                _setdep(df, vals)
                pars[name] = df
            kw = {"f_" + k: v for k, v in d.get("fixed", {}).items()}
            descs.append({"distribution": cls(**kw), "conditional_on": d["cond"], "parameters": pars,
                          "intervals": sl})
    return V.GlobalHierarchicalModel(descs), descs


_MUTABLE_BUILTINS = (dict, list, set, bytearray, np.ndarray)


def module_state():
    """{qualified name: object}: the mutable state virocon keeps OUTSIDE of model objects - module globals, class
    attributes and default argument values (e.g. the `par_rename={}` default of plot_dependence_functions) that are
    dicts/lists/sets/arrays or instances of virocon classes. No evaluation may write to it (hidden state shared by all
    calls and all models); discovered afresh for every op sequence, so state added to the library is picked up."""
    import sys

    out = {}

    def interesting(v):
        if isinstance(v, _MUTABLE_BUILTINS):
            return True
        mod = getattr(type(v), "__module__", "") or ""
        return (mod == "virocon" or mod.startswith("virocon.")) and atom_token(v) is None

    def defaults(qn, f):
        vals = list(f.__defaults__ or ()) + list((f.__kwdefaults__ or {}).values())
        for i, d in enumerate(vals):
            if interesting(d):
                out["%s.<default %d>" % (qn, i)] = d

    for mn in sorted(sys.modules):
        mod = sys.modules[mn]
        if mod is None or not (mn == "virocon" or mn.startswith("virocon.")):
            continue
        for k, v in list(vars(mod).items()):
            if k.startswith("__"):
                continue
            if isinstance(v, types.FunctionType):
                if v.__module__ == mn:
                    defaults(mn + "." + k, v)
            elif isinstance(v, type):
                if v.__module__ != mn:
                    continue
                for kk, vv in list(vars(v).items()):
                    f = vv.__func__ if isinstance(vv, (staticmethod, classmethod)) else vv
                    if isinstance(f, types.FunctionType):
                        defaults("%s.%s.%s" % (mn, k, kk), f)
                    elif isinstance(f, property):
                        for acc in (f.fget, f.fset):
                            if isinstance(acc, types.FunctionType):
                                defaults("%s.%s.%s" % (mn, k, kk), acc)
                    elif not kk.startswith("__") and kk != "_abc_impl" and interesting(f):
                        out["%s.%s.%s" % (mn, k, kk)] = f
            elif isinstance(v, types.ModuleType):
                continue
            elif interesting(v):
                out[mn + "." + k] = v
    return out


class LiveModel:
    def __init__(self, spec):
        self.spec = spec
        self.aux = []  # (name, object): getter by-products the caller holds (semantics, fit descriptions)
        self.fit_desc = None
        self.semantics = None
        self.fitted_with = None
        kind = spec["kind"]
        if kind in ("getter", "getter_tm"):
            res = getattr(V, GETTERS[spec["k"]])()
            self.descs, self.fit_desc, self.semantics = res[0], res[1], res[2]
            self.ghm = V.GlobalHierarchicalModel(self.descs)
            if spec.get("param", True):
                parametrize(spec["k"], self.ghm, spec.get("jit", 1.0))
            if kind == "getter_tm":
                tr = res[3]
                self.obj = V.TransformedModel(self.ghm, tr["transform"], tr["inverse"], tr["jacobian"],
                                              precision_factor=0.2, random_state=42)
            else:
                self.obj = self.ghm
            self.aux = [("semantics", self.semantics)]
            if self.fit_desc is not None:
                self.aux.append(("fit_descriptions", self.fit_desc))
        else:
            self.ghm, self.descs = build_custom(spec)
            self.obj = self.ghm
        self.n_dim = self.ghm.n_dim
        self.is_tm = kind == "getter_tm"
        self.label = kind + (str(spec.get("k")) if "k" in spec else str(self.n_dim) + "d")


def base_sample(lm, n, seed):
    """sample in the *ghm* space from the parametrized structure (the caller's data)"""
    with warnings.catch_warnings():
        warnings.simplefilter("ignore")
        return lm.ghm.draw_sample(n, random_state=seed)


# ---------------------------------------------------------------------------
# results of evaluations (for the repeat check)


def canon_result(r):
    """JSON-free canonical form: nested tuples of ('a', shape, bytes) / atoms"""
    if isinstance(r, np.ndarray):
        a = np.asarray(r)
        if a.dtype == object:
            return ("o", tuple(canon_result(x) for x in a.ravel()))
        return ("a", a.shape, a.dtype.str, a.tobytes())
    if isinstance(r, (list, tuple)):
        return ("l", tuple(canon_result(x) for x in r))
    if isinstance(r, dict):
        return ("d", tuple((k, canon_result(v)) for k, v in r.items()))
    if isinstance(r, (float, np.floating)):
        return ("f", struct.pack("<d", float(r)))
    return ("x", repr(r))


def same_result(a, b):
    """array_equal with NaN = NaN (values, not bit patterns)"""
    if isinstance(a, np.ndarray) or isinstance(b, np.ndarray):
        a, b = np.asarray(a), np.asarray(b)
        if a.shape != b.shape:
            return False
        if a.dtype == object or b.dtype == object:
            return all(same_result(x, y) for x, y in zip(a.ravel(), b.ravel()))
        try:
            return bool(np.array_equal(a, b, equal_nan=True))
        except TypeError:
            return bool(np.array_equal(a, b))
    if isinstance(a, (list, tuple)) and isinstance(b, (list, tuple)):
        return len(a) == len(b) and all(same_result(x, y) for x, y in zip(a, b))
    if isinstance(a, dict) and isinstance(b, dict):
        return list(a.keys()) == list(b.keys()) and all(same_result(a[k], b[k]) for k in a)
    if isinstance(a, float) and isinstance(b, float):
        return a == b or (a != a and b != b)
    try:
        return bool(a == b)
    except Exception:  # noqa: BLE001
        return a is b


def contour_state(c):
    """everything a contour object carries besides the reference to its model (compared between two evaluations)"""
    d = getattr(c, "__dict__", None)
    if not isinstance(d, dict):
        return c
    out = {}
    for k in sorted(d):
        v = d[k]
        if k == "model":
            out[k] = id(v)
        elif isinstance(v, (np.ndarray, list, tuple, dict, float, int, str, bool, type(None), np.generic)):
            out[k] = v
        elif hasattr(v, "__dict__"):
            out[k] = {kk: vv for kk, vv in sorted(vars(v).items())
                      if isinstance(vv, (np.ndarray, list, tuple, float, int, str, bool, type(None), np.generic))}
        else:
            out[k] = repr(type(v))
    return out


def axes_data(axs):
    """numbers handed to matplotlib, per axes"""
    out = []

    def one(ax):
        rec = []
        for ln in ax.get_lines():
            rec.append(np.asarray(ln.get_xydata(), dtype=float))
        for c in ax.collections:
            try:
                rec.append(np.asarray(c.get_offsets(), dtype=float))
            except Exception:  # noqa: BLE001
                pass
        for p in ax.patches[:200]:
            try:
                rec.append(np.array([p.get_x(), p.get_height()], dtype=float))
            except Exception:  # noqa: BLE001
                pass
        # the texts handed to matplotlib (axis labels, title, legend entries): part of what a plot call "returns";
        # a plot function that edits the caller's semantics in place shows up here on the second evaluation
        try:
            leg = ax.get_legend()
            texts = [ax.get_xlabel(), ax.get_ylabel(), ax.get_title()]
            texts += [t.get_text() for t in leg.get_texts()] if leg is not None else []
            if leg is not None and leg.get_title() is not None:
                texts.append(leg.get_title().get_text())
            rec.append(("texts",) + tuple(str(t) for t in texts))
        except Exception:  # noqa: BLE001
            pass
        return rec

    def walk(x):
        if isinstance(x, (list, tuple, np.ndarray)):
            for y in (x.ravel() if isinstance(x, np.ndarray) else x):
                walk(y)
        elif hasattr(x, "get_lines"):
            out.append(one(x))
        elif isinstance(x, np.ndarray):
            out.append([x])

    walk(axs)
    return out


# ---------------------------------------------------------------------------
# the world of one op sequence


class World:
    def __init__(self, case):
        self.case = case
        self.rng = np.random.default_rng([case["seed"], case["idx"] % (2**31), 7])
        self.models = []
        self.arrays = {}   # name -> caller-owned array / list
        self.consts = {}   # name -> caller-owned immutable argument (tuples of floats): cannot change, not a root
        self.contours = []  # dict(obj, m, kind)
        self.tmp = None
        self.gstate = module_state()
        for i, spec in enumerate(case["models"]):
            self.add_model(spec)

    def add_model(self, spec):
        lm = LiveModel(spec)
        i = len(self.models)
        self.models.append(lm)
        seed = int(spec.get("sseed", 11 + i))
        n = int(spec.get("n", 400))
        s = base_sample(lm, n, seed)
        self.arrays["S%d" % i] = s
        self.arrays["D%d" % i] = base_sample(lm, int(spec.get("nfit", 500)), seed + 1000)
        if lm.is_tm:
            # the same sample in the variable space of the transformed model
            self.arrays["T%d" % i] = np.array(lm.obj.inverse(s))
        return i

    def parr(self, rows, pvar="array"):
        """probabilities in different guises (registered as caller arguments)"""
        base = np.linspace(0.02, 0.98, rows)
        if pvar == "array":
            return self.arrays.setdefault("P%d" % rows, base)
        key = "P%d:%s" % (rows, pvar)
        if pvar == "tuple":
            return self.consts.setdefault(key, tuple(float(v) for v in base))
        if key in self.arrays:
            return self.arrays[key]
        if pvar == "list":
            a = [float(v) for v in base]
        elif pvar == "readonly":
            a = base.copy()
            a.setflags(write=False)
        elif pvar == "0d":
            a = np.array(float(base[rows // 2]))
        else:
            raise KeyError(pvar)
        self.arrays[key] = a
        return a

    # caller arrays in different guises; all registered as roots
    def arr(self, name, variant, rows):
        key = "%s:%s:%d" % (name, variant, rows)
        if key in self.arrays:
            return self.arrays[key]
        if key in self.consts:
            return self.consts[key]
        base = self.arrays[name]
        x = base[:rows]
        if variant == "tuple":
            a = tuple(tuple(float(v) for v in row) for row in x)
            self.consts[key] = a
            return a
        if variant == "readonly":
            # any in-place write into the caller's data raises ("assignment destination is read-only")
            a = np.array(x)
            a.setflags(write=False)
        elif variant == "float":
            a = np.array(x)
        elif variant == "view":
            a = base[:rows]            # a view of the caller's big array
        elif variant == "stride":
            a = base[: 2 * rows : 2]
        elif variant == "fortran":
            a = np.asfortranarray(x)
        elif variant == "int":
            a = np.ceil(x).astype(int)
        elif variant == "list":
            a = [[float(v) for v in row] for row in x]
        elif variant == "neg":
            a = np.array(x)
            a[::3, 0] = -a[::3, 0]     # non-positive values: the EW pdf masking branch
            a[1::5, -1] = 0.0
        else:
            raise KeyError(variant)
        self.arrays[key] = a
        return a

    def roots(self):
        """[(kind, name, object)] - every live root"""
        r = []
        for i, lm in enumerate(self.models):
            r.append(("model", "M%d" % i, lm.obj))
            for nm, o in lm.aux:
                r.append(("aux", "M%d.%s" % (i, nm), o))
            # the description list the model was built from stays with the caller (it shares the distribution objects
            # with the model): no evaluation may change it
            r.append(("desc", "M%d.descs" % i, lm.descs))
        for nm, a in self.arrays.items():
            r.append(("array", nm, a))
        for j, c in enumerate(self.contours):
            r.append(("contour", "C%d" % j, c["obj"]))
        r.append(("global", "virocon.<module state>", self.gstate))
        return r

    def tmpdir(self):
        if self.tmp is None:
            self.tmp = tempfile.mkdtemp(prefix="c19-", dir=TMP_ROOT)
        return self.tmp

    def close(self):
        if self.tmp:
            shutil.rmtree(self.tmp, ignore_errors=True)
        import matplotlib.pyplot as plt

        plt.close("all")


# op -> (model op kind, deterministic?)
PURE_KIND = {
    "pdf": "eval", "cdf": "eval", "icdf": "eval", "cond": "eval", "tcond": "eval", "marginal": "eval", "sample": "eval",
    "tm": "eval", "misc": "eval",
    "contour": "contour", "design": "design", "plot": "plot", "save": "save", "getter": "getter",
}


def exec_op(w, op):
    """runs the op on the real code. returns dict(result, target, args, new roots are added to w)"""
    import matplotlib.pyplot as plt

    name = op["op"]
    out = {"entry": name, "det": True, "args": [], "target": None}
    if name == "getter":
        out.update(entry=GETTERS[op["spec"]["k"]], target=None, det=False)
        out["call"] = lambda: w.add_model(op["spec"])
        return out
    lm = w.models[op["m"]] if "m" in op else None
    m = lm.obj if lm else None
    if lm:
        out["target"] = m
    if name == "pdf":
        x = w.arr("S%d" % op["m"], op["variant"], op["rows"])
        out["args"] = [x]
        out["entry"] = type(m).__name__ + ".pdf"
        out["call"] = lambda: m.pdf(x)
    elif name == "cdf":
        x = w.arr("S%d" % op["m"], op["variant"], 1)
        out["args"] = [x]
        out["entry"] = type(m).__name__ + ".cdf"
        out["call"] = lambda: m.cdf(x)
    elif name == "icdf":
        # distribution-level icdf / cdf / pdf with given (what the contours call)
        s = w.arr("S%d" % op["m"], "float", op["rows"])
        pvar, gvar = op.get("pvar", "array"), op.get("gvar", "float")
        p = w.parr(op["rows"], pvar)
        dim = op["dim"] % lm.n_dim
        dist = lm.ghm.distributions[dim]
        c = lm.ghm.conditional_on[dim]
        out["args"] = [p, s]
        out["entry"] = "Distribution.icdf" if c is None else "ConditionalDistribution.icdf"
        out["target"] = lm.ghm
        if c is None:
            out["call"] = lambda: (dist.icdf(p), dist.cdf(s[:, dim]), dist.pdf(s[:, dim]))
        else:
            # the conditioning values as float column view / int array / list / read-only array / one python float
            gkey = "S%d:float:%d:given%d:%s" % (op["m"], op["rows"], c, gvar)
            if gvar == "float":
                g = s[:, c]
            elif gvar == "scalar":
                g = float(s[0, c])
            elif gkey in w.arrays:
                g = w.arrays[gkey]
            else:
                if gvar == "int":
                    g = np.ceil(s[:, c]).astype(int)
                elif gvar == "list":
                    g = [float(v) for v in s[:, c]]
                elif gvar == "readonly":
                    g = np.array(s[:, c])
                    g.setflags(write=False)
                else:
                    raise KeyError(gvar)
                w.arrays[gkey] = g
            if gvar not in ("float", "scalar"):
                out["args"] = [p, s, g]
            out["call"] = lambda: (dist.icdf(p, given=g), dist.cdf(s[:, dim], given=g), dist.pdf(s[:, dim], given=g))
        if pvar != "array" or gvar != "float":
            out["entry"] += "[p=%s,given=%s]" % (pvar, gvar if c is not None else "-")
    elif name == "cond":
        s = w.arr("S%d" % op["m"], op["variant"] if op["variant"] in ("float", "view", "fortran", "readonly") else "float", op["rows"])
        p = w.parr(op["rows"], op.get("pvar", "array") if op.get("pvar") in ("array", "readonly") else "array")
        dim = op["dim"] % lm.n_dim
        out["args"] = [p, s]
        out["entry"] = "GlobalHierarchicalModel.conditional_icdf"
        out["call"] = lambda: (m.conditional_icdf(p, dim, s), m.conditional_cdf(s[:, dim], dim, s))
    elif name == "tcond":
        which = op["which"]
        first = w.arrays.setdefault("TC%d:%s" % (op["m"], which),
                                    np.array([0.25, 0.9]) if which == "icdf" else np.array([4.0, 5.5]))
        given = w.arrays.setdefault("TCG%d" % op["m"], np.array([[2.0], [3.5]]))
        out["args"] = [first, given]
        out["entry"] = "TransformedModel.conditional_" + which
        f = getattr(m, "conditional_" + which)
        if op.get("seeded"):
            # the way the contours call it: with the model's own random_state (an integer here) - then the Monte-Carlo
            # evaluation is deterministic and has to be repeatable on the same model object
            out["entry"] += "[random_state=model.random_state]"
            out["call"] = lambda: f(first, 1, given, random_state=m.random_state)
        else:
            out["det"] = False  # Monte-Carlo; what must hold is that the caller's arrays and the model are untouched
            out["call"] = lambda: f(first, 1, given)
    elif name == "marginal":
        unc = [i for i in range(lm.n_dim) if lm.ghm.conditional_on[i] is None]
        dim = unc[op["dim"] % len(unc)]
        s = w.arr("S%d" % op["m"], op["variant"], op["rows"])
        ckey = "S%d:%s:%d:col%d" % (op["m"], op["variant"], op["rows"], dim)
        if isinstance(s, tuple):
            col = w.consts.setdefault(ckey, tuple(r[dim] for r in s))
        else:
            col = w.arrays.setdefault(ckey, [r[dim] for r in s] if isinstance(s, list) else s[:, dim])
        p = w.parr(op["rows"], op.get("pvar", "array"))
        out["args"] = [col, p]
        out["entry"] = "GlobalHierarchicalModel.marginal_" + op["which"]
        f = getattr(m, "marginal_" + op["which"])
        out["call"] = (lambda: f(p, dim)) if op["which"] == "icdf" else (lambda: f(col, dim))
    elif name == "sample":
        out["entry"] = type(m).__name__ + ".draw_sample"
        if lm.is_tm and not op.get("seeded"):
            out["det"] = False   # no random_state given: Monte-Carlo by documentation
            out["call"] = lambda: m.draw_sample(op["n"])
        elif lm.is_tm:
            # TransformedModel.draw_sample(n, random_state=) passes the seed on to the underlying model: repeatable
            out["entry"] += "[random_state]"
            out["call"] = lambda: m.draw_sample(op["n"], random_state=op["rs"])
        else:
            out["call"] = lambda: m.draw_sample(op["n"], random_state=op["rs"])
    elif name == "tm":
        # the remaining evaluation entry points of TransformedModel, on points of ITS variable space
        which = op["which"]
        if not lm.is_tm:
            raise KeyError("not a TransformedModel")
        t = w.arr("T%d" % op["m"], op.get("variant", "float"), op["rows"])
        out["entry"] = "TransformedModel." + which
        if which == "cdf":
            x = w.arr("T%d" % op["m"], op.get("variant", "float"), 1)
            out["args"] = [x]
            out["call"] = lambda: m.cdf(x)           # nquad over the pdf (time-boxed like the other cdf)
        elif which == "empirical_cdf":
            big = w.arrays["T%d" % op["m"]]
            out["args"] = [t, big]
            out["call"] = lambda: m.empirical_cdf(t, sample=big)   # with a supplied sample: no cache involved
        elif which == "marginal_icdf":
            p = w.parr(op["rows"], op.get("pvar", "array"))
            out["args"] = [p]
            out["entry"] += "[random_state]"
            out["call"] = lambda: m.marginal_icdf(p, op["dim"] % lm.n_dim, precision_factor=0.05, random_state=op["rs"])
        else:
            raise KeyError(which)
    elif name == "misc":
        which = op["which"]
        out["entry"] = which
        if which == "sort_points_to_form_continuous_line":
            # caller-owned x / y arrays (a noisy closed curve, shuffled), both search modes
            out["target"] = None
            key = "XY%d:%d" % (op["n"], op["rs"])
            if key + ":x" not in w.arrays:
                r = np.random.default_rng(op["rs"])
                ang = r.permutation(np.linspace(0, 2 * np.pi, op["n"], endpoint=False))
                w.arrays[key + ":x"] = 3 + 2 * np.cos(ang) + 0.01 * r.normal(size=op["n"])
                w.arrays[key + ":y"] = 5 + 3 * np.sin(ang) + 0.01 * r.normal(size=op["n"])
                if op.get("variant") == "readonly":
                    w.arrays[key + ":x"].setflags(write=False)
                    w.arrays[key + ":y"].setflags(write=False)
            x, y = w.arrays[key + ":x"], w.arrays[key + ":y"]
            out["args"] = [x, y]
            out["call"] = lambda: V.sort_points_to_form_continuous_line(x, y, search_for_optimal_start=bool(op["opt"]))
        elif which == "calculate_alpha":
            out["target"] = None
            out["call"] = lambda: V.calculate_alpha(op["dur"], op["rp"])
        elif which == "conditional_sample":
            # MultivariateModel.conditional_sample called directly (rejection sampling on the model's pdf), seeded
            given = w.arrays.setdefault("CSG%d:%d" % (op["m"], op["dim"] % lm.n_dim),
                                        np.array([2.0 + 0.5 * j for j in range(lm.n_dim - 1)]))
            out["args"] = [given]
            out["entry"] = type(m).__name__ + ".conditional_sample[random_state]"
            out["call"] = lambda: m.conditional_sample(op["n"], op["dim"] % lm.n_dim, given, random_state=op["rs"])
        elif which == "Distribution.draw_sample":
            dim = op["dim"] % lm.n_dim
            dist = lm.ghm.distributions[dim]
            c = lm.ghm.conditional_on[dim]
            out["target"] = lm.ghm
            if c is None:
                out["call"] = lambda: dist.draw_sample(op["n"], random_state=op["rs"])
            else:
                sc = w.arr("S%d" % op["m"], "float", op["n"])
                g = w.arrays.setdefault("S%d:float:%d:given%d:copy" % (op["m"], op["n"], c), np.array(sc[:, c]))
                out["args"] = [g]
                out["entry"] = "ConditionalDistribution.draw_sample"
                out["call"] = lambda: dist.draw_sample(len(g), g, random_state=op["rs"])
        elif which == "DependenceFunction.__call__":
            deps = [(d, nm, f) for d, cd in cond_templates(lm.ghm) for nm, f in cd.conditional_parameters.items()]
            if not deps:
                raise KeyError("no dependence function")
            d, nm, f = deps[op["dim"] % len(deps)]
            sc = w.arr("S%d" % op["m"], op.get("variant", "float"), op["n"])
            xkey = "S%d:%s:%d:col0" % (op["m"], op.get("variant", "float"), op["n"])
            x = w.arrays.setdefault(xkey, [r[0] for r in sc] if isinstance(sc, list) else sc[:, 0])
            out["args"] = [x]
            out["target"] = lm.ghm
            out["call"] = lambda: f(x)
        elif which == "cell_averaged_joint_pdf":
            cs = [c for c in w.contours if c["kind"] == "HighestDensityContour"]
            if not cs:
                raise KeyError("no highest density contour")
            co = cs[-1]["obj"]
            nd = w.models[cs[-1]["m"]].n_dim
            coords = w.arrays.setdefault("cellcoords%d:%d" % (cs[-1]["m"], op["n"]),
                                         [np.linspace(0.5, 6.0 + d, op["n"] + d) for d in range(nd)])
            out["args"] = [coords]
            out["target"] = co
            out["entry"] = "HighestDensityContour.cell_averaged_joint_pdf"
            out["call"] = lambda: co.cell_averaged_joint_pdf(coords)
        else:
            raise KeyError(which)
    elif name == "contour":
        kind = op["kind"]
        s = w.arr("S%d" % op["m"], op["variant"], op["rows"])
        alpha = op["alpha"]
        out["entry"] = kind
        if kind == "IFORMContour":
            out["call"] = lambda: V.IFORMContour(m, alpha, n_points=op["n_points"])
        elif kind == "ISORMContour":
            out["call"] = lambda: V.ISORMContour(m, alpha, n_points=op["n_points"])
        elif kind == "HighestDensityContour":
            big = np.asarray(w.arrays["S%d" % op["m"]], dtype=float)
            limits = w.arrays.setdefault("limits%d" % op["m"], [(float(op["lo"]), float(big[:, d].max() * 1.6)) for d in range(lm.n_dim)])
            ncell = 24 if lm.n_dim == 2 else 10
            deltas = w.arrays.setdefault("deltas%d" % op["m"], [(hi - lo) / ncell for lo, hi in limits])
            grid = op.get("grid", "explicit")
            if grid == "explicit":
                out["args"] = [limits, deltas]
                out["call"] = lambda: V.HighestDensityContour(m, alpha, limits=limits, deltas=deltas)
            elif grid == "array":
                # limits / deltas as caller-owned ndarrays
                lim_a = w.arrays.setdefault("limits%d:array" % op["m"], np.array(limits, dtype=float))
                del_a = w.arrays.setdefault("deltas%d:array" % op["m"], np.array(deltas, dtype=float))
                out["args"] = [lim_a, del_a]
                out["call"] = lambda: V.HighestDensityContour(m, alpha, limits=lim_a, deltas=del_a)
            elif grid == "scalar":
                sc = float(max(deltas))
                out["args"] = [limits]
                out["call"] = lambda: V.HighestDensityContour(m, alpha, limits=limits, deltas=sc)
            elif grid == "default_limits":
                # limits=None: derived from marginal_icdf (Monte-Carlo for conditional dimensions), one scalar cell size
                sc = float(max(deltas))
                out["det"] = all(c is None for c in lm.ghm.conditional_on)
                out["call"] = lambda: V.HighestDensityContour(m, alpha, deltas=sc)
            elif grid == "default_deltas":
                if lm.n_dim != 2:
                    raise KeyError("default cell size: 400 cells per dimension, 2-D only")
                out["args"] = [limits]
                out["call"] = lambda: V.HighestDensityContour(m, alpha, limits=limits)
            elif grid == "default":
                if lm.n_dim != 2:
                    raise KeyError("default grid: 400 cells per dimension, 2-D only")
                out["det"] = all(c is None for c in lm.ghm.conditional_on)
                out["call"] = lambda: V.HighestDensityContour(m, alpha)
            else:
                raise KeyError(grid)
            if grid != "explicit":
                out["entry"] = kind + "[grid=%s]" % grid
        else:
            cls = getattr(V, kind)
            out["args"] = [s]
            kw = {"sample": s}
            if kind == "DirectSamplingContour":
                kw["deg_step"] = op["deg_step"]
            else:
                kw.update(deg_step=op["deg_step"], allowed_error=0.1)
                out["det"] = False  # marginal_icdf of the conditional variable: unseeded Monte-Carlo (documented)
            out["call"] = lambda: cls(m, alpha, **kw)
        out["post"] = "contour"
    elif name == "design":
        c = w.contours[op["c"] % len(w.contours)]
        co = c["obj"]
        if isinstance(co.coordinates, list):
            # a highest-density contour of several separate regions keeps a list of coordinate arrays: design conditions
            # are defined for one closed contour (precondition of the op, counted as skipped)
            raise KeyError("multi-part contour")
        out["target"] = co
        out["entry"] = "calculate_design_conditions"
        sv = op["steps"]
        if sv == "none":
            steps = None
        elif sv == "int":
            steps = 7
        else:
            xs = np.asarray(co.coordinates, dtype=float)[:, 1 if op["swap"] else 0]
            st = np.linspace(float(np.nanmin(xs)), float(np.nanmax(xs)), 6)[1:-1]
            steps = w.arrays.setdefault("steps%d%s%d" % (op["c"] % len(w.contours), sv, op["swap"]),
                                        st if sv == "array" else [float(v) for v in st])
            out["args"] = [steps]
        out["call"] = lambda: V.calculate_design_conditions(co, steps=steps, swap_axis=op["swap"])
    elif name == "save":
        c = w.contours[op["c"] % len(w.contours)]
        co = c["obj"]
        out["target"] = co
        out["entry"] = "save_contour_coordinates"
        sem = w.models[c["m"]].semantics if op["sem"] else None
        path = os.path.join(w.tmpdir(), "c%d" % op["c"])

        def call():
            V.save_contour_coordinates(co, path, semantics=sem)
            with open(path + ".txt", "rb") as f:
                return f.read()

        out["call"] = call
    elif name == "plot":
        fn = op["fn"]
        out["entry"] = fn
        sem = lm.semantics if (lm and op.get("sem")) else None
        if fn == "plot_2D_contour":
            c = w.contours[op["c"] % len(w.contours)]
            co = c["obj"]
            out["target"] = co
            s = w.arr("S%d" % c["m"], op["variant"], op["rows"])
            out["args"] = [s]
            sem = w.models[c["m"]].semantics if op.get("sem") else None

            dc = op["dc"] or None
            if dc in ("array", "list"):
                # precomputed design conditions handed in as the caller's array (the documented second form)
                if isinstance(co.coordinates, list):
                    raise KeyError("multi-part contour")
                ck_ = "dc%d:%s:%d" % (op["c"] % len(w.contours), dc, op["swap"])
                if ck_ not in w.arrays:
                    a = np.array(V.calculate_design_conditions(co, swap_axis=op["swap"]))
                    w.arrays[ck_] = a
                dc = w.arrays[ck_]
                out["args"] = [s, dc]
                out["entry"] = fn + "[design_conditions=array]"
            use_ax = bool(op.get("ax"))

            def call():
                ax = plt.subplots()[1] if use_ax else None
                r = V.plot_2D_contour(co, sample=s, design_conditions=dc, semantics=sem,
                                      swap_axis=op["swap"], ax=ax)
                d = axes_data(r[0] if isinstance(r, tuple) else r)
                if isinstance(r, tuple):
                    d.append(np.array(r[1], dtype=float))   # the returned design conditions
                plt.close("all")
                return d
        elif fn == "plot_dependence_functions":
            pr = op.get("pr")
            kw = {}
            if pr:
                # a caller-owned par_rename dict (the default is a dict shared by all calls: see module_state())
                if not any(nm == "par_rename" for nm, _ in lm.aux):
                    names = [nm for _, cd in cond_templates(lm.ghm) for nm in cd.conditional_parameters]
                    lm.aux.append(("par_rename", {} if pr == "empty" else {nm: "$" + nm + "$" for nm in names[:1]}))
                kw["par_rename"] = [o for nm, o in lm.aux if nm == "par_rename"][0]
                out["entry"] = fn + "[par_rename]"
            n_ax = sum(len(cd.conditional_parameters) for _, cd in cond_templates(lm.ghm))
            use_ax = bool(op.get("ax"))

            def call():
                if use_ax:
                    kw["axes"] = [plt.subplots()[1] for _ in range(n_ax)]
                r = V.plot_dependence_functions(m, semantics=sem, **kw)
                d = axes_data(r)
                plt.close("all")
                return d
        elif fn == "plot_marginal_quantiles":
            s = w.arr("S%d" % op["m"], op["variant"], op["rows"])
            out["args"] = [s]
            out["det"] = all(c is None for c in lm.ghm.conditional_on)  # conditional dims: Monte-Carlo marginal_icdf
            use_ax = bool(op.get("ax"))

            def call():
                axes = [plt.subplots()[1] for _ in range(lm.n_dim)] if use_ax else None
                r = V.plot_marginal_quantiles(m, s, semantics=sem, axes=axes)
                d = axes_data(r)
                plt.close("all")
                return d
        elif fn == "plot_2D_isodensity":
            s = w.arr("S%d" % op["m"], op["variant"], op["rows"])
            out["args"] = [s]
            kw = {}
            opt = op.get("iso")
            if opt:
                # limits / levels as the caller's lists or arrays
                big = np.asarray(w.arrays["S%d" % op["m"]], dtype=float)
                lims = [(0.0, float(big[:, d].max() * 1.2)) for d in range(2)]
                lv = [1e-3, 1e-2, 1e-1]
                if opt == "array":
                    kw["limits"] = w.arrays.setdefault("isolimits%d:array" % op["m"], np.array(lims))
                    kw["levels"] = w.arrays.setdefault("isolevels:array", np.array(lv))
                elif opt == "list":
                    kw["limits"] = w.arrays.setdefault("isolimits%d:list" % op["m"], [list(t) for t in lims])
                    kw["levels"] = w.arrays.setdefault("isolevels:list", list(lv))
                else:   # limits only
                    kw["limits"] = w.arrays.setdefault("isolimits%d:list" % op["m"], [list(t) for t in lims])
                out["args"] = [s] + list(kw.values())
                out["entry"] = fn + "[limits/levels=%s]" % opt
            use_ax = bool(op.get("ax"))

            def call():
                ax = plt.subplots()[1] if use_ax else None
                r = V.plot_2D_isodensity(m, s, semantics=sem, swap_axis=op["swap"], n_grid_steps=40, ax=ax, **kw)
                d = axes_data(r)
                plt.close("all")
                return d
        else:  # plot_histograms_of_interval_distributions: needs the sample the model was fitted to
            s = lm.fitted_with if lm.fitted_with is not None else w.arrays["D%d" % op["m"]]
            out["args"] = [s]
            plot_pdf = not op.get("nopdf")
            if not plot_pdf:
                out["entry"] = fn + "[plot_pdf=False]"

            def call():
                r = V.plot_histograms_of_interval_distributions(m, s, semantics=sem, plot_pdf=plot_pdf)
                d = axes_data(r[1])
                plt.close("all")
                return d
        out["call"] = call
    elif name == "fit":
        data = w.arrays["D%d" % op["m"]]
        if op["variant"] == "list":
            data = w.arrays.setdefault("D%d:list" % op["m"], [[float(v) for v in r] for r in data])
        elif op["variant"] == "fortran":
            data = w.arrays.setdefault("D%d:fortran" % op["m"], np.asfortranarray(data))
        elif op["variant"] == "readonly":
            if "D%d:readonly" % op["m"] not in w.arrays:
                ro = np.array(data)
                ro.setflags(write=False)
                w.arrays["D%d:readonly" % op["m"]] = ro
            data = w.arrays["D%d:readonly" % op["m"]]
        if lm.is_tm:
            data = w.arrays.setdefault("D%d:tz" % op["m"], lm.obj.inverse(np.asarray(w.arrays["D%d" % op["m"]])))
        out["args"] = [data]
        out["entry"] = type(m).__name__ + ".fit"
        out["det"] = False
        fd = lm.fit_desc if op["fd"] else None
        out["call"] = lambda: m.fit(data, fd) if fd is not None else m.fit(data)
        out["post"] = "fit"
        out["fit_data"] = data
    else:
        raise KeyError(name)
    return out


# ---------------------------------------------------------------------------
# conditional-fit bookkeeping


def cond_templates(ghm):
    """[(dim, ConditionalDistribution)]"""
    return [(i, d) for i, d in enumerate(ghm.distributions) if type(d).__name__ == "ConditionalDistribution"]


def pvals(dist):
    return list(dist.parameters.values())


def pbits(v):
    """a parameter value as a protocol integer: the double's bit pattern, or a hash for anything else"""
    if isinstance(v, (float, int, np.floating, np.integer)) and not isinstance(v, bool):
        return f2b(float(v))
    a = atom_token(v)
    if a is None and isinstance(v, np.ndarray):
        a = b"nd" + str(v.shape).encode() + np.ascontiguousarray(v).tobytes()
    return _h63(a if a is not None else repr(v).encode())


def cond_fit_check(records, case, step, lm, before, fit_desc_used):
    """before: {dim: (template object, deepcopy of template, node fields before)}"""
    for dim, cd in cond_templates(lm.ghm):
        if dim not in before:
            continue
        t_obj, t_copy, t_node = before[dim]
        rec = {"kind": "condfit", "case": case, "step": step, "dim": dim, "fail": [], "skip": None}
        if cd.distribution is not t_obj:
            rec["fail"].append(("template_unchanged", "the template object was replaced"))
        t_after = children_of(cd.distribution)[1]
        atomic = all(atom_token(c) is not None for c in t_after)
        rec["template_atomic"] = atomic
        now = [atom_token(c) for c in t_after]
        if now != t_node:
            rec["fail"].append(("template_unchanged",
                                "template %r: parameters before %r, after %r" % (type(t_obj).__name__, pvals(t_copy), pvals(cd.distribution))))
        dpi = getattr(cd, "distributions_per_interval", None)
        data_int = getattr(cd, "data_intervals", None)
        if dpi is None or data_int is None or len(dpi) != len(data_int) or len(dpi) == 0:
            rec["skip"] = "fit did not complete the interval loop"
            records.append(rec)
            continue
        method, weights = fit_desc_used[dim]
        # independent leaf: fit a deep copy of the OLD template to each interval's data
        ps = []
        try:
            with warnings.catch_warnings():
                warnings.simplefilter("ignore")
                def refit():
                    for x in data_int:
                        d = copy.deepcopy(t_copy)
                        d.fit(x, method, weights)
                        ps.append(pvals(d))

                timed_call(refit, OP_BUDGET)
        except Exception as e:  # noqa: BLE001
            rec["skip"] = "independent refit raised " + type(e).__name__
            records.append(rec)
            continue
        seen = {id(cd.distribution): "t"}
        pattern = []
        for d in dpi:
            if id(d) not in seen:
                seen[id(d)] = "d%d" % len(seen)
            pattern.append(seen[id(d)])
        rec["impl"] = {"template": [pbits(v) for v in pvals(cd.distribution)],
                       "dists": [[pbits(v) for v in pvals(d)] for d in dpi], "pattern": pattern}
        t0 = [pbits(v) for v in pvals(t_copy)]
        line = ["RUN", "condfit", "1", "1", "1", str(len(t0))] + ["i%d" % b for b in t0] + ["0", str(len(ps))]
        for p in ps:
            line += [str(len(p))] + ["i%d" % pbits(v) for v in p]
        rec["line"] = " ".join(line)
        rec["n_int"] = len(ps)
        if pattern != ["d%d" % (j + 1) for j in range(len(dpi))]:
            rec["fail"].append(("interval_distributions_fresh", "identity pattern of distributions_per_interval: %s" % pattern[:8]))
        records.append(rec)


# ---------------------------------------------------------------------------
# one op sequence -> records (lines for the driver + what the real code did)


class _Timeout(Exception):
    pass


OP_BUDGET = 20.0   # seconds per call; an evaluation that is interrupted must be pure as well
CDF_BUDGET = 3.0   # nquad-based cdf evaluations (repeated only when the first one took < 1.5 s)


def _alarm(signum, frame):
    raise _Timeout("evaluation interrupted by the harness after the time budget")


def timed_call(f, budget):
    """run f(); nquad-based cdf can take minutes - an interrupted evaluation must be pure as well"""
    import signal

    old = signal.signal(signal.SIGALRM, _alarm)
    signal.setitimer(signal.ITIMER_REAL, budget)
    try:
        return f()
    finally:
        signal.setitimer(signal.ITIMER_REAL, 0)
        signal.signal(signal.SIGALRM, old)


def run_sequence(case):
    warnings.simplefilter("ignore")
    np.seterr(all="ignore")
    t0 = time.time()
    records = []
    try:
        w = World(case)
    except Exception as e:  # noqa: BLE001
        return [{"kind": "machinery", "case": case, "detail": "world construction failed: %r" % (e,)}]
    heap = Heap()
    n_ok = 0
    # "repeating a deterministic evaluation returns identical results" across the history, not only back to back:
    # memo of cheap deterministic evaluations (and one pdf probe per initial model, incl. rows outside the support),
    # re-evaluated after the last op unless the model was fitted in between
    memo = []
    for mi, lm0 in enumerate(w.models):
        try:
            xp = w.arr("S%d" % mi, "neg", 5)
            def callp(mm=lm0.obj, xx=xp):
                # numpy's default floating-point error handling (the harness otherwise silences it): rows outside the
                # support make the evaluation emit RuntimeWarnings, as it does for a user
                with np.errstate(all="warn"):
                    return mm.pdf(xx)
            r0 = timed_call(callp, OP_BUDGET)
            memo.append({"step": -1, "m": mi, "entry": type(lm0.obj).__name__ + ".pdf", "call": callp, "first": r0, "valid": True})
        except Exception:  # noqa: BLE001
            pass
    try:
        for step, op in enumerate(case["ops"]):
            try:
                ex = exec_op(w, op)
            except (IndexError, ZeroDivisionError, KeyError) as e:
                records.append({"kind": "skip", "case": case, "step": step, "why": repr(e)})
                continue
            # every argument is a registered root by now (caller arrays); observe "before"
            roots = w.roots()
            root_objs = [o for _, _, o in roots]
            heap.scan(root_objs)
            hashes = [deep_hash(o) for o in root_objs]
            before_nodes = list(heap.nodes)
            tmpl_before = {}
            fd_used = {}
            lm = w.models[op["m"]] if "m" in op else None
            if ex.get("post") == "fit":
                for dim, cd in cond_templates(lm.ghm):
                    tmpl_before[dim] = (cd.distribution, copy.deepcopy(cd.distribution),
                                        [atom_token(c) for c in children_of(cd.distribution)[1]])
                fd = lm.fit_desc if op["fd"] else None
                for dim in range(lm.n_dim):
                    d = (fd[dim] if fd is not None and fd[dim] is not None else None) or {"method": "mle", "weights": None}
                    fd_used[dim] = (d.get("method", "mle"), d.get("weights", None))
            exc = None
            result = None
            det_bad = None
            t_op = time.time()
            try:
                is_cdf = op["op"] == "cdf" or (op["op"] == "tm" and op.get("which") == "cdf")
                result = timed_call(ex["call"], CDF_BUDGET if is_cdf else OP_BUDGET)
            except Exception as e:  # noqa: BLE001
                exc = type(e).__name__ + ": " + str(e)[:120]
            ro_write = None
            if exc is not None and ("destination is read-only" in exc or "output array is read-only" in exc):
                # numpy refused an in-place write; with a read-only array among the caller's arguments this is an attempted
                # write into the caller's data (fresh arrays are writeable)
                if any(isinstance(a, np.ndarray) and not a.flags.writeable for a in ex["args"]):
                    ro_write = exc
            repeated = False
            hashes_mid = None
            if exc is None and ex["det"] and not (is_cdf and time.time() - t_op > 1.5):
                repeated = True
                # the state after the FIRST evaluation: a change that the second evaluation happens to undo (reversing a
                # list in place, toggling a flag) must not hide between the two snapshots
                hashes_mid = [deep_hash(o) for o in root_objs]
                try:
                    again = timed_call(ex["call"], OP_BUDGET)
                    r1 = result.coordinates if ex.get("post") == "contour" else result
                    r2 = again.coordinates if ex.get("post") == "contour" else again
                    if not same_result(r1, r2):
                        det_bad = "second evaluation differs from the first"
                    elif ex.get("post") == "contour":
                        # not only the coordinates: every attribute of the contour object (beta, sphere points, cell
                        # centres, fm, limits, deltas, stored sample ...) has to be the same on the second computation
                        s1, s2 = contour_state(result), contour_state(again)
                        diff = ([k for k in s1 if k not in s2 or not same_result(s1[k], s2[k])] + [k for k in s2 if k not in s1]
                                if isinstance(s1, dict) and isinstance(s2, dict) else [])
                        if diff:
                            det_bad = "second computation of the contour differs from the first in attribute(s) %s" % diff[:4]
                    elif "m" in op and op["op"] in ("pdf", "icdf", "cond", "marginal", "sample", "tcond", "tm", "misc") and time.time() - t_op < 4.0:
                        memo.append({"step": step, "m": op["m"], "entry": ex["entry"], "call": ex["call"], "first": r1, "valid": True})
                except Exception as e:  # noqa: BLE001
                    det_bad = "second evaluation raised %s although the first succeeded" % type(e).__name__
                again = None
            dt_op = time.time() - t_op
            # results that stay alive become roots
            if ex.get("post") == "contour" and exc is None:
                if len(w.contours) >= 3:
                    w.contours.pop(0)
                w.contours.append({"obj": result, "m": op["m"], "kind": op["kind"]})
            if ex.get("post") == "fit":
                lm.fitted_with = ex["fit_data"]
                for e in memo:
                    if e["m"] == op["m"]:
                        e["valid"] = False
            result = None
            # observe "after": the old roots and whatever is a root now
            n_before, writes, allocs = heap.scan(root_objs + [o for _, _, o in w.roots()])
            hashes_after = [deep_hash(o) for o in root_objs]
            changed = [a != b for a, b in zip(hashes, hashes_after)]
            undone = []
            if hashes_mid is not None:
                undone = [a != m and a == b for a, m, b in zip(hashes, hashes_mid, hashes_after)]
                changed = [c or u for c, u in zip(changed, undone)]
            # ---- model line
            kind = "fit" if op["op"] == "fit" else PURE_KIND[op["op"]]
            tgt = heap.ids.get(id(ex["target"]), 0) if ex["target"] is not None else 0
            if op["op"] == "getter":
                tgt = op["spec"]["k"]
            arg_ids = [heap.ids[id(a)] for a in ex["args"] if id(a) in heap.ids]
            root_ids = [heap.ids[id(o)] for o in root_objs]
            line = ["RUN", "heapstep"] + store_tokens(before_nodes) + [str(len(root_ids))] + [str(i) for i in root_ids]
            desc_ids = []
            if op["op"] == "fit" and op["fd"] and lm.fit_desc is not None:
                desc_ids = [heap.ids[id(lm.fit_desc)]]
            line += [kind, str(tgt), str(len(arg_ids))] + [str(i) for i in arg_ids]
            line += [str(len(desc_ids))] + [str(i) for i in desc_ids]
            line += [str(len(writes))]
            for i, n in writes:
                line += [str(i)] + node_tokens(n)
            line += [str(len(allocs))]
            for n in allocs:
                line += node_tokens(n)
            rec = {
                "kind": "step", "case": case, "step": step, "op": op, "entry": ex["entry"], "exc": exc,
                "roots": [(k, nm) for k, nm, _ in roots], "changed": changed, "have_hashes": True,
                "written": [i for i, _ in writes], "n_alloc": len(allocs), "n_store": len(before_nodes),
                "line": " ".join(line), "det": repeated, "det_bad": det_bad,
                "target_root": None, "dt": round(dt_op, 4),
                "written_desc": [describe_obj(heap.objs[i]) for i, _ in writes[:6]],
                "ro_write": ro_write, "undone": [nm for (k, nm, _), u in zip(roots, undone) if u],
                "readonly_args": sum(1 for a in ex["args"] if isinstance(a, np.ndarray) and not a.flags.writeable),
            }
            if op["op"] == "fit":
                rec["target_root"] = [nm for k, nm, o in roots if o is ex["target"]][0]
                rec["desc_root"] = ([nm for k, nm, o in roots if o is lm.fit_desc] or [None])[0] if desc_ids else None
            aux_r = reach_nodes(before_nodes, [i for (k, _, _), i in zip(roots, root_ids) if k == "aux"])
            prot_r = reach_nodes(before_nodes, [i for (k, _, _), i in zip(roots, root_ids) if k != "aux"])
            rec["aux_only_ids"] = sorted(aux_r - prot_r)
            records.append(rec)
            if exc is None:
                n_ok += 1
            if ex.get("post") == "fit":
                cond_fit_check(records, case, step, lm, tmpl_before, fd_used)
        late = [e for e in memo if e["valid"]]
        for e in late[:2] + late[2:][-4:]:
            detail = None
            try:
                r2 = timed_call(e["call"], OP_BUDGET)
                if not same_result(e["first"], r2):
                    detail = "evaluation of step %d repeated after the rest of the history differs from its first result" % e["step"]
            except Exception as ex2:  # noqa: BLE001
                detail = ("evaluation of step %d succeeded first, but raised %s: %s when repeated after the rest of the history"
                          % (e["step"], type(ex2).__name__, str(ex2)[:100]))
            records.append({"kind": "late", "case": case, "step": e["step"], "entry": e["entry"], "detail": detail})
    finally:
        w.close()
    records.append({"kind": "seq", "case": case, "n_ok": n_ok, "n_models": len(w.models),
                    "n_objects": len(heap.objs), "wall": round(time.time() - t0, 3)})
    return records


def describe_obj(o):
    if isinstance(o, np.ndarray):
        return "ndarray%s" % (o.shape,)
    return type(o).__name__


# ---------------------------------------------------------------------------
# case generation


def random_models(rng):
    specs = []
    n = int(rng.choice([2, 2, 3]))
    for j in range(n):
        r = rng.integers(0, 10)
        if j == 1 and rng.integers(0, 2) == 0 and specs[0]["kind"] == "getter":
            # a second model from the SAME getter: the sharing scenario of the property
            specs.append(dict(specs[0], jit=float(rng.choice([1.0, 0.9, 1.1]))))
        elif r < 5:
            specs.append({"kind": "getter", "k": int(rng.integers(0, 6)), "jit": float(rng.choice([1.0, 0.95, 1.05]))})
        elif r < 7:
            specs.append({"kind": "getter_tm", "k": int(rng.choice([4, 5])), "jit": 1.0})
        else:
            specs.append(random_custom_spec(rng))
        specs[-1] = dict(specs[-1], n=int(rng.choice([300, 400])), nfit=int(rng.choice([400, 600])),
                         sseed=int(rng.integers(1, 10**6)))
    return specs


VARIANTS = ["float", "view", "stride", "fortran", "int", "list", "neg"]
VARIANTS_X = VARIANTS + ["readonly", "tuple"]       # read-only arrays (any in-place write raises), tuples of tuples
PVARS = ["array", "array", "list", "tuple", "readonly", "0d"]
GVARS = ["float", "float", "int", "list", "readonly", "scalar"]
MISC = ["sort_points_to_form_continuous_line", "calculate_alpha", "conditional_sample", "Distribution.draw_sample",
        "DependenceFunction.__call__", "cell_averaged_joint_pdf"]


def _misc_op(rng, m, have_hdc):
    which = str(rng.choice(MISC if have_hdc else MISC[:-1]))
    op = {"op": "misc", "which": which}
    if which == "sort_points_to_form_continuous_line":
        op.update(n=int(rng.choice([2, 12, 40])), rs=int(rng.integers(0, 1000)), opt=bool(rng.integers(0, 2)),
                  variant=str(rng.choice(["float", "readonly"])))
    elif which == "calculate_alpha":
        op.update(dur=float(rng.choice([1, 3, 6])), rp=float(rng.choice([1, 25, 50])))
    elif which == "cell_averaged_joint_pdf":
        op.update(n=int(rng.choice([5, 12])))
    else:
        op.update(m=m, dim=int(rng.integers(0, 3)), n=int(rng.choice([1, 10, 100])), rs=int(rng.integers(0, 1000)))
        if which == "conditional_sample":
            op["dim"] = int(rng.integers(0, 2))
            op["n"] = int(rng.choice([10, 200]))
        if which == "DependenceFunction.__call__":
            op["variant"] = str(rng.choice(["float", "view", "int", "list", "readonly"]))
            op["n"] = int(rng.choice([7, 40]))
    return op


def random_ops(rng, specs, length, allow_cdf):
    """`allow_cdf` also enables the other slow options (default grids of the highest density contour)"""
    ops = []
    specs = list(specs)
    n_contours = 0
    n_hdc = 0
    fitted = set()
    for _ in range(length):
        nm = len(specs)
        m = int(rng.integers(0, nm))
        sp = specs[m]
        is_tm = sp["kind"] == "getter_tm"
        nd = len(sp["dims"]) if sp["kind"] == "custom" else 2
        var = str(rng.choice(VARIANTS_X))
        r = rng.uniform()
        if is_tm:
            c = rng.integers(0, 10)
            if c == 4:
                # Monte-Carlo conditional cdf / icdf of the transformed model on caller-owned float64 arrays
                ops.append({"op": "tcond", "m": m, "which": str(rng.choice(["icdf", "cdf"])), "seeded": bool(rng.integers(0, 2))})
            elif c == 0:
                ops.append({"op": "pdf", "m": m, "variant": str(rng.choice(["float", "view", "fortran", "stride", "readonly"])), "rows": 20})
            elif c == 1:
                ops.append({"op": "sample", "m": m, "n": 50, "rs": int(rng.integers(0, 1000)), "seeded": bool(rng.integers(0, 3))})
            elif c == 2:
                ops.append({"op": "fit", "m": m, "variant": "float", "fd": bool(rng.integers(0, 2))})
                fitted.add(m)
            elif c == 5:
                ops.append({"op": "tm", "m": m, "which": "empirical_cdf", "rows": int(rng.choice([1, 12])),
                            "variant": str(rng.choice(["float", "view", "list", "readonly", "fortran"]))})
            elif c == 6:
                ops.append({"op": "tm", "m": m, "which": "marginal_icdf", "rows": int(rng.choice([3, 9])), "dim": int(rng.integers(0, 2)),
                            "rs": int(rng.integers(0, 1000)), "pvar": str(rng.choice(["array", "list", "readonly", "tuple"]))})
            elif c == 7:
                ops.append({"op": "misc", "which": "conditional_sample", "m": m, "dim": int(rng.integers(0, 2)),
                            "n": int(rng.choice([10, 200])), "rs": int(rng.integers(0, 1000))})
            elif c == 8 and allow_cdf and rng.integers(0, 3) == 0:
                ops.append({"op": "tm", "m": m, "which": "cdf", "rows": 1, "variant": str(rng.choice(["float", "list", "readonly"]))})
            else:
                ops.append({"op": "pdf", "m": m, "variant": "float", "rows": 5})
            continue
        if r < 0.09:
            ops.append({"op": "pdf", "m": m, "variant": var, "rows": int(rng.choice([1, 7, 40]))})
        elif r < 0.13 and allow_cdf and ((sp["kind"] == "getter" and sp["k"] in (2, 3)) or (sp["kind"] == "custom" and nd == 2 and rng.integers(0, 3) == 0)):
            ops.append({"op": "cdf", "m": m, "variant": str(rng.choice(["float", "int", "list", "readonly", "tuple"])), "rows": 1})
        elif r < 0.19:
            ops.append({"op": "icdf", "m": m, "dim": int(rng.integers(0, 3)), "rows": int(rng.choice([5, 30])),
                        "pvar": str(rng.choice(PVARS)), "gvar": str(rng.choice(GVARS))})
        elif r < 0.24:
            ops.append({"op": "cond", "m": m, "dim": int(rng.integers(0, 3)), "variant": var, "rows": int(rng.choice([5, 30])),
                        "pvar": str(rng.choice(["array", "readonly"]))})
        elif r < 0.31:
            ops.append({"op": "marginal", "m": m, "which": str(rng.choice(["pdf", "cdf", "icdf"])), "dim": int(rng.integers(0, 3)),
                        "variant": str(rng.choice(["float", "view", "stride", "int", "list", "neg", "readonly", "tuple"])),
                        "rows": int(rng.choice([6, 25])), "pvar": str(rng.choice(PVARS))})
        elif r < 0.36:
            ops.append({"op": "sample", "m": m, "n": int(rng.choice([1, 10, 200])), "rs": int(rng.integers(0, 1000))})
        elif r < 0.44:
            ops.append(_misc_op(rng, m, n_hdc > 0))
        elif r < 0.59:
            kinds = ["IFORMContour", "ISORMContour", "HighestDensityContour"]
            if nd == 2:
                kinds += ["DirectSamplingContour", "AndContour", "OrContour"]
            grids = ["explicit", "explicit", "array", "scalar", "default_limits"]
            if allow_cdf and nd == 2:
                grids += ["default", "default_deltas"]
            ops.append({"op": "contour", "m": m, "kind": str(rng.choice(kinds)), "alpha": float(rng.choice([0.02, 0.05, 0.1])),
                        "n_points": int(rng.choice([12, 36])), "deg_step": int(rng.choice([6, 10, 15])),
                        "variant": str(rng.choice(["float", "view", "stride", "fortran", "readonly"])), "rows": int(rng.choice([200, 300])),
                        "lo": float(rng.choice([0.0, 0.05])), "grid": str(rng.choice(grids))})
            n_contours += 1
            n_hdc += ops[-1]["kind"] == "HighestDensityContour"
        elif r < 0.65 and n_contours:
            ops.append({"op": "design", "c": int(rng.integers(0, 3)), "steps": str(rng.choice(["none", "int", "array", "list"])),
                        "swap": bool(rng.integers(0, 2))})
        elif r < 0.70 and n_contours:
            ops.append({"op": "save", "c": int(rng.integers(0, 3)), "sem": bool(rng.integers(0, 2))})
        elif r < 0.83:
            fns = ["plot_dependence_functions", "plot_marginal_quantiles"]
            if nd == 2:
                fns.append("plot_2D_isodensity")
            if n_contours:
                fns += ["plot_2D_contour", "plot_2D_contour"]
            if m in fitted:
                fns += ["plot_histograms_of_interval_distributions"] * 2
            dcs = [False, True, "array"]
            ops.append({"op": "plot", "fn": str(rng.choice(fns)), "m": m, "c": int(rng.integers(0, 3)), "sem": bool(rng.integers(0, 2)),
                        "variant": str(rng.choice(["float", "view", "stride", "fortran", "list", "readonly"])), "rows": int(rng.choice([60, 150])),
                        "swap": bool(rng.integers(0, 2)), "dc": dcs[int(rng.integers(0, 3))], "ax": bool(rng.integers(0, 2)),
                        "iso": [None, None, "array", "list", "limits"][int(rng.integers(0, 5))],
                        "pr": [None, None, "dict", "empty"][int(rng.integers(0, 4))], "nopdf": bool(rng.integers(0, 3) == 0)})
        elif r < 0.95:
            ops.append({"op": "fit", "m": m, "variant": str(rng.choice(["float", "list", "fortran", "readonly"])), "fd": bool(rng.integers(0, 2))})
            fitted.add(m)
        elif nm < 4:
            spec = {"kind": "getter", "k": int(rng.integers(0, 6)), "jit": 1.0, "n": 300, "nfit": 400,
                    "sseed": int(rng.integers(1, 10**6))}
            ops.append({"op": "getter", "spec": spec})
            specs.append(spec)
        else:
            ops.append({"op": "pdf", "m": m, "variant": var, "rows": 3})
    return ops


def corpus_cases():
    """hand-written sequences that hit the sharing / in-place scenarios directly"""
    g = lambda k, **kw: dict({"kind": "getter", "k": k, "jit": 1.0, "n": 300, "nfit": 500, "sseed": 5 + k}, **kw)  # noqa: E731
    out = []
    for k in range(6):
        # two models from the same getter: fit one between two uses of the other
        out.append({"models": [g(k), g(k, sseed=77)], "ops": [
            {"op": "pdf", "m": 1, "variant": "neg", "rows": 40},
            {"op": "fit", "m": 0, "variant": "float", "fd": True},
            {"op": "pdf", "m": 1, "variant": "view", "rows": 40},
            {"op": "plot", "fn": "plot_dependence_functions", "m": 0, "c": 0, "sem": True, "variant": "float", "rows": 60, "swap": False, "dc": False},
            {"op": "contour", "m": 0, "kind": "IFORMContour", "alpha": 0.05, "n_points": 12, "deg_step": 10, "variant": "float", "rows": 200, "lo": 0.0},
            {"op": "fit", "m": 1, "variant": "list", "fd": False},
        ]})
    out.append({"models": [g(2), g(0)], "ops": [
        {"op": "marginal", "m": 0, "which": "pdf", "dim": 0, "variant": "neg", "rows": 25},
        {"op": "marginal", "m": 0, "which": "pdf", "dim": 0, "variant": "int", "rows": 25},
        {"op": "cdf", "m": 0, "variant": "float", "rows": 1},
        {"op": "cdf", "m": 0, "variant": "int", "rows": 1},
        {"op": "contour", "m": 0, "kind": "HighestDensityContour", "alpha": 0.1, "n_points": 12, "deg_step": 10, "variant": "float", "rows": 200, "lo": 0.05},
        {"op": "design", "c": 0, "steps": "array", "swap": False},
        {"op": "save", "c": 0, "sem": True},
        {"op": "plot", "fn": "plot_2D_contour", "m": 0, "c": 0, "sem": True, "variant": "stride", "rows": 60, "swap": True, "dc": True},
    ]})
    # --- TransformedModel: every evaluation entry point, seeded ones repeat-checked
    out.append({"models": [dict(g(4), kind="getter_tm"), g(5)], "ops": [
        {"op": "sample", "m": 0, "n": 50, "rs": 7, "seeded": True},
        {"op": "tm", "m": 0, "which": "empirical_cdf", "rows": 12, "variant": "readonly"},
        {"op": "tm", "m": 0, "which": "marginal_icdf", "rows": 5, "dim": 1, "rs": 3, "pvar": "list"},
        {"op": "tm", "m": 0, "which": "cdf", "rows": 1, "variant": "float"},
        {"op": "misc", "which": "conditional_sample", "m": 0, "dim": 1, "n": 200, "rs": 11},
        {"op": "fit", "m": 1, "variant": "readonly", "fd": True},
        {"op": "pdf", "m": 0, "variant": "readonly", "rows": 20},
    ]})
    # --- the distribution families and slicers the getters do not use, as templates of conditional distributions
    c3 = {"kind": "custom", "n_int": 4, "slicer": "number", "n": 300, "nfit": 500, "sseed": 21, "dims": [
        {"family": "ScipyGamma", "cond": None, "params": {"a": 2.5, "loc": 0.0, "scale": 1.2}},
        {"family": "Normal", "cond": 0, "deps": {"mu": ["lin2", [3.0, 1.2]], "sigma": ["exp3", [0.3, 0.5, -0.2]]}},
        {"family": "VonMises", "cond": None, "params": {"kappa": 1.5, "mu": 1.0}}]}
    c2 = {"kind": "custom", "n_int": 4, "slicer": "width", "width": 0.8, "n": 300, "nfit": 500, "sseed": 22, "dims": [
        {"family": "GeneralizedGamma", "cond": None, "params": {"m": 2.0, "c": 1.3, "lambda_": 0.8}},
        {"family": "LogNormalNormFit", "cond": 0, "deps": {"mu_norm": ["power3", [2.0, 1.0, 0.8]], "sigma_norm": ["exp3", [0.2, 0.6, -0.2]]}}]}
    c2b = {"kind": "custom", "n_int": 4, "slicer": "points", "ppi": 120, "n": 300, "nfit": 500, "sseed": 23, "dims": [
        {"family": "ExponentiatedWeibull", "cond": None, "params": {"alpha": 1.2, "beta": 1.1, "delta": 2.5}},
        {"family": "ScipyGamma", "cond": 0, "fixed": {"loc": 0.0}, "deps": {"a": ["lin2", [2.0, 0.3]], "scale": ["exp3", [0.5, 0.5, -0.1]]}}]}
    out.append({"models": [c3, c2], "ops": [
        {"op": "pdf", "m": 0, "variant": "readonly", "rows": 40},
        {"op": "icdf", "m": 0, "dim": 1, "rows": 30, "pvar": "readonly", "gvar": "int"},
        {"op": "fit", "m": 0, "variant": "float", "fd": False},
        {"op": "plot", "fn": "plot_histograms_of_interval_distributions", "m": 0, "c": 0, "sem": False, "variant": "float", "rows": 60,
         "swap": False, "dc": False, "nopdf": True},
        {"op": "pdf", "m": 1, "variant": "tuple", "rows": 7},
        {"op": "fit", "m": 1, "variant": "list", "fd": False},
        {"op": "cdf", "m": 0, "variant": "float", "rows": 1},
        {"op": "misc", "which": "Distribution.draw_sample", "m": 1, "dim": 1, "n": 10, "rs": 4},
    ]})
    out.append({"models": [c2b, c2], "ops": [
        {"op": "icdf", "m": 0, "dim": 1, "rows": 5, "pvar": "list", "gvar": "readonly"},
        {"op": "fit", "m": 0, "variant": "fortran", "fd": False},
        {"op": "misc", "which": "DependenceFunction.__call__", "m": 0, "dim": 1, "n": 40, "variant": "readonly"},
        {"op": "contour", "m": 1, "kind": "IFORMContour", "alpha": 0.05, "n_points": 12, "deg_step": 10, "variant": "float", "rows": 200, "lo": 0.0},
        {"op": "cdf", "m": 1, "variant": "list", "rows": 1},
        {"op": "plot", "fn": "plot_marginal_quantiles", "m": 0, "c": 0, "sem": False, "variant": "readonly", "rows": 60, "swap": False,
         "dc": False, "ax": True},
    ]})
    # --- array-valued options of contours and plots; entry points outside the model classes
    out.append({"models": [g(0), g(3)], "ops": [
        {"op": "contour", "m": 0, "kind": "HighestDensityContour", "alpha": 0.1, "n_points": 12, "deg_step": 10, "variant": "float", "rows": 200,
         "lo": 0.05, "grid": "array"},
        {"op": "misc", "which": "cell_averaged_joint_pdf", "n": 12},
        {"op": "plot", "fn": "plot_2D_contour", "m": 0, "c": 0, "sem": True, "variant": "readonly", "rows": 60, "swap": True, "dc": "array", "ax": True},
        {"op": "plot", "fn": "plot_2D_isodensity", "m": 0, "c": 0, "sem": True, "variant": "float", "rows": 60, "swap": False, "dc": False,
         "iso": "array", "ax": True},
        {"op": "plot", "fn": "plot_dependence_functions", "m": 1, "c": 0, "sem": True, "variant": "float", "rows": 60, "swap": False, "dc": False,
         "pr": "dict", "ax": True},
        {"op": "plot", "fn": "plot_dependence_functions", "m": 1, "c": 0, "sem": False, "variant": "float", "rows": 60, "swap": False, "dc": False},
        {"op": "contour", "m": 1, "kind": "HighestDensityContour", "alpha": 0.1, "n_points": 12, "deg_step": 10, "variant": "float", "rows": 200,
         "lo": 0.0, "grid": "default"},
        {"op": "misc", "which": "sort_points_to_form_continuous_line", "n": 40, "rs": 5, "opt": True, "variant": "readonly"},
    ]})
    out.append({"models": [g(1), g(2)], "ops": [
        {"op": "contour", "m": 0, "kind": "HighestDensityContour", "alpha": 0.1, "n_points": 12, "deg_step": 10, "variant": "float", "rows": 200,
         "lo": 0.0, "grid": "scalar"},
        {"op": "contour", "m": 1, "kind": "HighestDensityContour", "alpha": 0.1, "n_points": 12, "deg_step": 10, "variant": "float", "rows": 200,
         "lo": 0.0, "grid": "default_limits"},
        {"op": "plot", "fn": "plot_2D_isodensity", "m": 1, "c": 0, "sem": False, "variant": "list", "rows": 60, "swap": True, "dc": False, "iso": "list"},
        {"op": "misc", "which": "calculate_alpha", "dur": 3.0, "rp": 50.0},
        {"op": "misc", "which": "conditional_sample", "m": 1, "dim": 1, "n": 200, "rs": 2},
        {"op": "misc", "which": "Distribution.draw_sample", "m": 0, "dim": 0, "n": 100, "rs": 9},
        {"op": "contour", "m": 0, "kind": "DirectSamplingContour", "alpha": 0.1, "n_points": 12, "deg_step": 10, "variant": "readonly", "rows": 300, "lo": 0.0},
        {"op": "design", "c": 2, "steps": "array", "swap": False},
    ]})
    for i, c in enumerate(out):
        c.update(seed=0, idx=-1 - i, gen="corpus")
    return out


def make_cases(seed, n_seq, max_len, allow_cdf_every):
    cases = []
    for idx in range(n_seq):
        rng = np.random.default_rng([seed, idx])
        specs = random_models(rng)
        length = int(rng.integers(max(2, max_len // 2), max_len + 1))
        ops = random_ops(rng, specs, length, allow_cdf=(idx % allow_cdf_every == 0))
        cases.append({"seed": seed, "idx": idx, "gen": "random", "models": specs, "ops": ops})
    return cases


# ---------------------------------------------------------------------------
# getter pairs


def getter_pair_record(k, rep, do_fit):
    warnings.simplefilter("ignore")
    name = GETTERS[k]
    fn = getattr(V, name)
    gc.collect()
    pre = gc.get_objects()
    pre_ids = set(map(id, pre))
    r1 = fn()
    r2 = fn()
    rec = {"kind": "getter", "k": k, "name": name, "rep": rep, "fail": []}
    # graphs
    h = Heap()
    h.scan([r1])
    n1 = len(h.objs)
    reach1 = set(range(n1))
    h.scan([r1, r2])
    id1, id2 = h.ids[id(r1)], h.ids[id(r2)]
    g1, g2 = h.reach(r1), h.reach(r2)
    mutable = {i for i, n in enumerate(h.nodes) if n[0] == 1}
    shared_py = sorted(g1 & g2 & mutable)
    rec["shared_py"] = [describe_obj(h.objs[i]) for i in shared_py]
    # renumber: pre-existing (gc-tracked before the first call), then allocated by call 1, then by call 2
    pre_ex = [i for i in range(len(h.objs)) if id(h.objs[i]) in pre_ids]
    a1 = [i for i in range(len(h.objs)) if i in reach1 and i not in pre_ex]
    a2 = [i for i in range(len(h.objs)) if i not in reach1 and i not in pre_ex]
    order = pre_ex + a1 + a2
    ren = {old: new for new, old in enumerate(order)}

    def rn(node):
        return (node[0], tuple(("r%d" % ren[int(f[1:])]) if f[0] == "r" else f for f in node[1]))

    toks = ["RUN", "getterpair"] + store_tokens([rn(h.nodes[i]) for i in pre_ex])
    toks += store_tokens([rn(h.nodes[i]) for i in a1]) + [str(ren[id1])]
    toks += store_tokens([rn(h.nodes[i]) for i in a2]) + [str(ren[id2])]
    rec["line"] = " ".join(toks)
    rec["n_pre"], rec["n1"], rec["n2"] = len(pre_ex), len(g1), len(g2)
    rec["pre_desc"] = [describe_obj(h.objs[i]) for i in pre_ex[:5]]
    rec["n_shared_immutable"] = len((g1 & g2) - mutable)
    if shared_py:
        rec["fail"].append(("getter_results_disjoint", "two results of %s() share mutable objects: %s" % (name, rec["shared_py"][:5])))
    pre = None
    if do_fit:
        # build both models, fit the first on data from a parametrized twin; the second must not change
        try:
            # the descriptions are hashed BEFORE any model is built from them: constructing a model from the first result
            # must not reach the second result either
            hr1_0, hr2_0 = deep_hash(r1), deep_hash(r2)
            m1 = V.GlobalHierarchicalModel(r1[0])
            if deep_hash(r2) != hr2_0:
                rec["fail"].append(("other_description_unchanged_by_construction",
                                    "building a model from one result of %s() changed the result of a second call" % name))
            rec["ctor_changed_own_description"] = deep_hash(r1) != hr1_0
            m2 = V.GlobalHierarchicalModel(r2[0])
            twin = LiveModel({"kind": "getter", "k": k, "jit": 1.0})
            data = base_sample(twin, 500, 31 + rep)
            h2a, hr2 = deep_hash(m2), deep_hash(r2)
            try:
                m1.fit(data, r1[1])
                rec["fit"] = "ok"
            except Exception as e:  # noqa: BLE001
                rec["fit"] = type(e).__name__
            if deep_hash(m2) != h2a or deep_hash(r2) != hr2:
                rec["fail"].append(("other_model_unchanged_by_fit",
                                    "fitting a model from %s() changed a model built from a second call" % name))
        except Exception as e:  # noqa: BLE001
            rec["fit"] = "setup:" + type(e).__name__
    return rec


# ---------------------------------------------------------------------------
# evaluation of the records (main process: driver + verdicts)


def sig(entry, predicate):
    return {"entry": entry, "predicate": predicate}


def slim(case, step=None):
    c = {k: v for k, v in case.items() if not k.startswith("_")}
    if step is not None:
        c["failing_step"] = step
        if "ops" in c:
            c["ops"] = c["ops"][: step + 1]   # later ops cannot matter
    return c


_WALL = {}   # entry -> seconds spent in the first evaluation (reported in the evidence)


def judge_steps(ck, recs, answers):
    for rec, ans in zip(recs, answers):
        case, step, op = rec["case"], rec["step"], rec["op"]
        kv = parse_kv(ans)
        entry = rec["entry"]
        ck.count("entry=" + entry)
        _WALL[entry.split("[")[0]] = _WALL.get(entry.split("[")[0], 0.0) + rec.get("dt", 0.0)
        if rec["exc"]:
            ck.count("raised=" + entry + ":" + rec["exc"].split(":")[0])
        # ---- oracle on the real code
        bad = []
        is_fit = op["op"] == "fit"
        if rec["have_hashes"]:
            for (kind, nm), ch in zip(rec["roots"], rec["changed"]):
                if not ch:
                    continue
                if kind == "aux":
                    # the caller's semantics dict / fit descriptions / par_rename dict (getter by-products the caller holds)
                    if is_fit and nm == rec.get("desc_root"):
                        ck.count("fit_descriptions_filled_in_place")   # declared in the model's footprint of fit
                        continue
                    if is_fit and nm.startswith(rec["target_root"] + "."):
                        ck.count("aux_changed=" + nm.split(".")[-1] + ":" + entry)   # fit is not an evaluation: reported
                        continue
                    # an evaluation (plot, save, ...) that edits a dict/list argument of the caller in place, or a fit
                    # that reaches the by-products of ANOTHER getter call
                    pred = "other_model_unchanged_by_fit" if is_fit else "caller_argument_unchanged"
                elif kind == "global":
                    pred = "module_state_unchanged"
                elif is_fit:
                    tr = rec["target_root"]
                    if nm == tr or nm == tr + ".descs":
                        continue   # the description list shares its distribution objects with the model built from it
                    if kind == "contour":
                        # contours keep a reference to their model: allowed to follow a fit of THAT model
                        continue
                    pred = "other_model_unchanged_by_fit" if kind in ("model", "desc") else "caller_array_unchanged"
                else:
                    pred = {"model": "model_unchanged", "array": "caller_array_unchanged", "contour": "contour_unchanged",
                            "desc": "model_description_unchanged"}[kind]
                bad.append((pred, "%s changed root %s (%s)%s; written objects: %s" % (
                    entry, nm, kind, " - the second evaluation restored it" if nm in rec.get("undone", []) else "", rec["written_desc"])))
        if rec.get("readonly_args"):
            ck.count("ops_with_read_only_caller_array")
            if rec.get("ro_write"):
                bad.append(("caller_array_unchanged", "%s tried to write into a read-only array of the caller: %s" % (entry, rec["ro_write"])))
        if rec["det"]:
            ck.count("repeat_checked")
            if rec["det_bad"]:
                bad.append(("repeat_identical", rec["det_bad"]))
        for pred, detail in bad:
            ck.fail(sig(entry, pred), slim(case, step), detail)
        # ---- correspondence with the model
        if kv is None:
            ck.diverge("heap:driver", slim(case, step), "driver answered %r" % ans[:200])
            continue
        ck.hyp_checked += 1
        if kv["cert"] != "1" or kv["wf"] != "1" or kv["effwf"] != "1":
            ck.diverge("heap:certificate", slim(case, step), "reach certificate / well-formedness failed: %s" % ans[:200])
            continue
        touched = kv["touched"]
        if rec["have_hashes"]:
            for (kind, nm), ch, t in zip(rec["roots"], rec["changed"], touched):
                t = t == "1"
                if ch and not t:
                    if not bad or True:
                        ck.diverge("heap:substore", slim(case, step),
                                   "deep hash of %s changed but the model sees no write in its sub-store (%s)" % (nm, entry))
                    break
                if t and not ch and not is_fit and not bad:
                    ck.diverge("heap:substore", slim(case, step),
                               "model sees a write in the sub-store of %s (%s) but its deep hash is unchanged; written: %s"
                               % (nm, entry, rec["written_desc"]))
                    break
        if kv["adm"] != "1" and not bad:
            # written objects outside the footprint but every root hash unchanged
            aux_only = all(o in rec["aux_only_ids"] for o in ints(kv["off"]))
            if aux_only:
                ck.count("footprint_exceeded_on_aux_only=" + entry)
            else:
                ck.diverge("heap:admissible", slim(case, step),
                           "%s wrote objects %s outside its declared footprint (%s) yet no root hash changed" % (entry, kv["off"], rec["written_desc"]))
        if kv["adm"] == "1":
            ck.count("admissible")
        else:
            ck.count("outside_footprint=" + entry + ("(oracle failed too)" if bad else ""))
        if is_fit:
            ck.count("fit_written_objects", len(rec["written"]))
            if not rec["written"] and not rec["exc"]:
                ck.count("fit_wrote_nothing")
            smut, sany = ints(kv["smut"]), ints(kv["sany"])
            for (kind, nm), a, b in zip(rec["roots"], smut, sany):
                if nm in (rec["target_root"], rec.get("desc_root"), rec["target_root"] + ".descs") or kind in ("contour", "aux"):
                    continue
                ck.count("sep_checked")
                if a > 0:
                    if kind in ("model", "desc", "global"):
                        ck.fail(sig(entry, "models_share_no_mutable_state"), slim(case, step),
                                "%s %s shares %d mutable objects with the fitted model %s" % (kind, nm, a, rec["target_root"]))
                    else:
                        ck.count("model_captured_caller_array")
                elif b > 0:
                    ck.count("shared_immutable_objects")
            if kv["nocap"] != "1":
                ck.count("fit_captures_foreign_object")


def judge_condfit(ck, recs, answers):
    for rec, ans in zip(recs, answers):
        case, step = rec["case"], rec["step"]
        for pred, detail in rec["fail"]:
            ck.fail(sig("ConditionalDistribution.fit", pred), slim(case, step), detail)
        if rec["skip"]:
            ck.count("condfit_skipped")
            continue
        ck.count("condfit_checked")
        ck.count("condfit_intervals", rec["n_int"])
        if not rec["template_atomic"]:
            ck.count("condfit_template_not_atomic")
        t = ans.split()
        if t[0] != "OK":
            ck.diverge("condfit", slim(case, step), "driver: " + ans[:100])
            continue
        p = 1
        k = int(t[p]); tf = [int(x[1:]) for x in t[p + 1 : p + 1 + k]]; p += 1 + k
        n = int(t[p]); ids = [int(x) for x in t[p + 1 : p + 1 + n]]; p += 1 + n
        dists = []
        for _ in range(n):
            k = int(t[p]); dists.append([int(x[1:]) for x in t[p + 1 : p + 1 + k]]); p += 1 + k
        seen = {0: "t"}
        pattern = []
        for d in ids:
            if d not in seen:
                seen[d] = "d%d" % len(seen)
            pattern.append(seen[d])
        impl = rec["impl"]
        if (impl["template"], impl["dists"], impl["pattern"]) != (tf, dists, pattern) and not rec["fail"]:
            what = "template" if impl["template"] != tf else ("identity pattern" if impl["pattern"] != pattern else "interval parameters")
            ck.diverge("condfit", slim(case, step), "model and implementation differ in %s (dim %d)" % (what, rec["dim"]))


def judge_getters(ck, recs, answers):
    for rec, ans in zip(recs, answers):
        case = {"getter": rec["name"], "rep": rec["rep"], "gen": "getterpair"}
        ck.case(case, nontrivial=rec["n1"] > 5 and rec["n2"] > 5, sample=rec["rep"] == 0 and rec["k"] in (0, 3))
        ck.count("getterpair=" + rec["name"])
        if "fit" in rec:
            ck.count("getterpair_fit=" + rec["fit"])
        if "ctor_changed_own_description" in rec:
            ck.count("getterpair_descriptions_hashed_before_construction")
            if rec["ctor_changed_own_description"]:
                ck.count("constructor_changed_own_description(reported)")
        for pred, detail in rec["fail"]:
            ck.fail(sig(rec["name"], pred), case, detail)
        kv = parse_kv(ans)
        if kv is None or kv["cert"] != "1" or kv["wf"] != "1":
            ck.diverge("getterpair", case, "driver: " + ans[:200])
            continue
        ck.hyp_checked += 1
        shared = ints(kv["shared"])
        if len(shared) != len(rec["shared_py"]):
            ck.diverge("getterpair", case, "model finds %d shared mutable objects, python intersection %d" % (len(shared), len(rec["shared_py"])))
        if (kv["fresh1"] != "1" or kv["fresh2"] != "1") and not rec["fail"]:
            ck.fail(sig(rec["name"], "getter_result_fresh"), case,
                    "a result of %s() contains a mutable object that existed before the call (%s)" % (rec["name"], rec["pre_desc"]))
        if rec["n_shared_immutable"]:
            ck.count("getter_shared_immutable_objects", rec["n_shared_immutable"])


def process(ck, all_records):
    steps = [r for r in all_records if r["kind"] == "step"]
    conds = [r for r in all_records if r["kind"] == "condfit"]
    cl = [r for r in conds if "line" in r]
    lines = [r["line"] for r in steps] + [r["line"] for r in cl]
    answers = ck.driver.run(lines) if lines else []
    judge_steps(ck, steps, answers[: len(steps)])
    amap = {id(r): a for r, a in zip(cl, answers[len(steps):])}
    judge_condfit(ck, conds, [amap.get(id(r), "OK 0 0") for r in conds])
    for r in all_records:
        if r["kind"] == "seq":
            c = r["case"]
            nontrivial = r["n_ok"] >= 2 and r["n_models"] >= 2
            ck.case(slim(c), nontrivial=nontrivial, sample=c.get("gen") == "random" and c["idx"] < 3)
            ck.count("seq_len=%d" % len(c["ops"]))
            ck.count("models=" + "+".join(sorted(m["kind"] + str(m.get("k", "")) for m in c["models"])))
            ck.count("ops_executed_without_exception", r["n_ok"])
            for m in c["models"]:
                if m["kind"] == "custom":
                    ck.count("custom_slicer=" + m.get("slicer", "number"))
                    for d in m["dims"]:
                        ck.count("custom_family=%s(%s)" % (d["family"], "unconditional" if d["cond"] is None else "template of a conditional"))
            ck.count("max_objects", 0)
            ck.dist["max_objects"] = max(ck.dist.get("max_objects", 0), r["n_objects"])
        elif r["kind"] == "late":
            ck.count("repeat_after_history_checked")
            if r["detail"]:
                ck.fail(sig(r["entry"], "repeat_identical_after_history"), slim(r["case"]), r["detail"])
        elif r["kind"] == "skip":
            ck.count("op_skipped_precondition")
        elif r["kind"] == "machinery":
            raise core.MachineryError(r["detail"])


def shrink_failures(ck):
    """replace the witness of every failing signature by the shortest sub-sequence that still fails:
    the failing op alone, preceded only by the op that creates the contour / fitted state it needs"""
    done = set()
    for n, (sg, case, detail) in enumerate(list(ck.failures)):
        key = json.dumps(sg, sort_keys=True)
        if key in done or "ops" not in case or "failing_step" not in case:
            continue
        done.add(key)
        ops, k = case["ops"], case["failing_step"]
        need = {k}
        op = ops[k]
        if op["op"] in ("design", "save") or (op["op"] == "plot" and op["fn"] == "plot_2D_contour") or (
                op["op"] == "misc" and op.get("which") == "cell_averaged_joint_pdf"):
            prev = [j for j in range(k) if ops[j]["op"] == "contour"]
            need.update(prev[-3:])
        if op["op"] == "plot" and op["fn"] == "plot_histograms_of_interval_distributions":
            prev = [j for j in range(k) if ops[j]["op"] == "fit" and ops[j]["m"] == op["m"]]
            need.update(prev[-1:])
        if any(o["op"] == "getter" for o in ops[:k]):
            need.update(j for j in range(k) if ops[j]["op"] == "getter")
        idx = sorted(need)
        if len(idx) == k + 1:
            continue
        small = {kk: v for kk, v in case.items() if kk not in ("failing_step",)}
        small["ops"] = [ops[j] for j in idx]
        small["gen"] = "shrunk"
        try:
            recs = run_sequence(small)
            ck2 = core.Check(ck.prop, "quick", ck.seed)
            ck2.driver, ck2.known = ck.driver, []
            process(ck2, recs)
        except Exception:  # noqa: BLE001
            continue
        for sg2, case2, detail2 in ck2.failures:
            if sg2 == sg:
                for i, f in enumerate(ck.failures):
                    if f[0] == sg:
                        ck.failures[i] = (sg, case2, detail2)
                        break
                break


def _worker(case):
    try:
        recs = run_sequence(case)
    except Exception as e:  # noqa: BLE001
        import traceback

        return [{"kind": "machinery", "case": case, "detail": "harness exception: %r\n%s" % (e, traceback.format_exc()[-1500:])}]
    # lines are big: keep only what the judge needs
    return recs


def _getter_worker(args):
    return getter_pair_record(*args)


def main(ck):
    thorough = ck.tier == "thorough"
    n_seq = 2000 if thorough else 120
    max_len = 12 if thorough else 6
    ck.rule = (
        "corpus sequences (two models from the same getter, fit one between two uses of the other; in-place scenarios; every "
        "TransformedModel entry point; the families/slicers the getters do not use; array-valued options; utility entry points), "
        "then %d random op sequences of length <= %d over 2-3 live models (six predefined getters, TransformedModel, custom 2-D/3-D "
        "over all 8 distribution families and 3 slicers); "
        "then getter pairs for each of the six getters; a sequence is non-trivial if it has >= 2 live models and >= 2 ops that "
        "ran without exception; distinct by SHA1 of the case" % (n_seq, max_len)
    )
    ck.assumptions = [
        "CPython object identity (id()) with all observed objects kept alive; functions/classes/modules/numbers/strings/"
        "tuples of atoms are immutable atoms; an object's observable content is its __dict__/items/elements/ndarray bytes",
        "gc.get_objects() lists the container objects that existed before a getter call (freshness); untracked objects are "
        "attributed to the call that first reaches them",
        "per-interval fit results (scipy) are leaves: re-evaluated with the same call on a deep copy of the old template",
    ]
    ck.partial = {
        "footprints": "that every real entry point has an effect inside its declared footprint is measured per executed op "
                      "(observed write set vs footprint), not proven about the Python source",
        "repeat_identical": "the theorem needs 'the result reads only the reachable sub-store'; that the entry points use no hidden "
                            "global state is observed by evaluating twice (array_equal)",
        "getter_disjointness": "freshness/disjointness of getter results is measured on id()-graphs of actual results",
        "caller_arguments_and_module_state": "that plot/save/contour functions leave the caller's semantics / par_rename / limits / "
                                             "levels / design-condition arguments and virocon's module-level state (globals, class "
                                             "attributes, default argument values) unchanged is observed per executed op (deep hash "
                                             "before / between / after the two evaluations); the heap theorems cover it only through "
                                             "the measured footprint",
        "read_only_probe": "an in-place write that would not change any value is only visible for the ops that were handed a "
                           "read-only array (numpy raises)",
    }
    cases = corpus_cases() + make_cases(ck.seed, n_seq, max_len, allow_cdf_every=(4 if thorough else 3))
    reps = 12 if thorough else 2
    gargs = [(k, rep, rep == 0) for k in range(6) for rep in range(reps)]
    if thorough:
        import multiprocessing as mp

        with mp.get_context("fork").Pool(8) as pool:
            grecs = pool.map(_getter_worker, gargs)
            chunk = []
            for recs in pool.imap(_worker, cases, chunksize=4):
                chunk += recs
                if len(chunk) > 600:
                    process(ck, chunk)
                    chunk = []
            process(ck, chunk)
    else:
        grecs = [getter_pair_record(*a) for a in gargs]
        chunk = []
        for c in cases:
            chunk += run_sequence(c)
            if len(chunk) > 600:
                process(ck, chunk)
                chunk = []
        process(ck, chunk)
    judge_getters(ck, grecs, ck.driver.run([r["line"] for r in grecs]))
    if ck.failures:
        shrink_failures(ck)
    ck.extra["exhaustive"] = False
    ck.extra["seconds_in_first_evaluation_by_entry(top)"] = {k: round(v, 1) for k, v in sorted(_WALL.items(), key=lambda kv: -kv[1])[:8]}
    d = ck.dist
    ck.extra["hypotheses_measured"] = {
        "steps_with_valid_reach_certificates_and_wellformed_store": ck.hyp_checked,
        "steps_inside_declared_footprint": d.get("admissible", 0),
        "fit_separation_pairs_checked(sharedMut=[])": d.get("sep_checked", 0),
        "pairs_sharing_only_immutable_objects": d.get("shared_immutable_objects", 0),
        "fits_capturing_a_foreign_object(NoCapture false)": d.get("fit_captures_foreign_object", 0),
        "fits_capturing_a_caller_array": d.get("model_captured_caller_array", 0),
        "fit_descriptions_filled_in_place(by design of the code, inside the footprint of fit)": d.get("fit_descriptions_filled_in_place", 0),
        "other_caller_dicts/lists_changed(not arrays; reported only)": {k: v for k, v in d.items() if k.startswith("aux_changed=")},
    }


def replay(ck, payload):
    case = payload["case"]
    ok = True
    if case.get("gen") == "getterpair":
        k = GETTERS.index(case["getter"])
        rec = getter_pair_record(k, case.get("rep", 0), True)
        for pred, detail in rec["fail"]:
            print("oracle:", pred, detail)
            ok = False
        if ck.driver:
            print("model:", ck.driver.run([rec["line"]])[0][:200])
        return ok
    c = {k: v for k, v in case.items() if k != "failing_step"}
    recs = run_sequence(c)
    ck2 = core.Check(ck.prop, "quick", ck.seed)
    ck2.driver = ck.driver
    ck2.known = []
    if ck.driver:
        process(ck2, recs)
    for s, cs, detail in ck2.failures:
        print("oracle:", s, "step", cs.get("failing_step"), detail)
        ok = False
    for op, cs, detail in ck2.divergences:
        print("correspondence:", op, "step", cs.get("failing_step"), detail)
    return ok
