"""
C05 - every distribution's cdf/icdf/pdf follow the documented formula and each other;
explicit parameters = constructed instance.

Tie mechanism 1 (generated tables, re-proved on every run): importing this module runs the
sentinel translator (harness/sentinel.py) on the tree under test and rewrites
lean/VirVerif/Generated/*.lean when the code says something new; `lake build` (run by
core.Check.lean before `main`) then re-proves `override_law` & co. of Properties/C05.lean.
If that fails, `main` lets the Lean predicate name the failing rows and turns each row into a
concrete call on the real code.

Tie mechanism 2 (numeric): the documented formulas of Model/Families.lean, evaluated by the Lean
driver at Float (special functions as TABLE leaves from scipy.special), are compared with
`Dist(**theta).m(x)` and `Dist().m(x, **theta)`; the property's clauses are evaluated as an
oracle on the real outputs.
"""
import os
import subprocess
import warnings

import numpy as np
import scipy.special as sp
import scipy.stats as sts

import core
import sentinel

# the tables under lean/VirVerif/Generated are regenerated from the tree under test: a table theorem that no
# longer holds makes `lake build` fail, which for this property is a broken proof obligation, not a machinery error
HANDLES_BUILD_FAILURE = True
from core import f2b, b2f, fl

TABLES = sentinel.generate()  # import time: before core.Check.lean() builds

METHS = ("cdf", "icdf", "pdf")
DRV_FAM = {
    "WeibullDistribution": 0, "LogNormalDistribution": 1, "NormalDistribution": 2,
    "LogNormalNormFitDistribution": 3, "ExponentiatedWeibullDistribution": 4,
    "GeneralizedGammaDistribution": 5, "VonMisesDistribution": 6, "GumbelScipyDistribution": 7,
}
SCIPY_SUB = {"GammaScipyDistribution": sts.gamma, "BetaScipyDistribution": sts.beta,
             "GumbelScipyDistribution": sts.gumbel_r}
DOC_PARAMS = sentinel.DOC_PARAMS


# ---------------------------------------------------------------------------
# failing table rows, named by the Lean predicates themselves


def lean_bad_rows(prop):
    """evaluate the row predicates of Model/Families.lean on the generated tables with Lean and
    return the rows they reject: {'get': [(fam, meth, fixed, expl, mode)], 'ctor': …, 'fit': …}"""
    lean = core.LEAN
    subprocess.run(["lake", "build", "VirVerif.Generated.ParamMap", "VirVerif.Generated.FitKeywords"],
                   cwd=lean, capture_output=True, text=True, timeout=1200)
    src = """import VirVerif.Generated.ParamMap
import VirVerif.Generated.FitKeywords
open VirVerif VirVerif.Generated
def showL (l : List Nat) : String := ",".intercalate (l.map toString)
def main : IO Unit := do
  for r in getRows do
    if !(getRowOkWith baseMaps[r.fam]? r) || !(raiseOk families r) then
      IO.println s!"get {r.fam} {r.meth} [{showL r.fixed}] [{showL r.expl}] {r.mode}"
  for r in ctorRows do
    if !(ctorRowOk families r) then IO.println s!"ctor {r.fam} [{showL r.given}] [{showL r.fixed}] {r.order}"
  for r in condRows do
    if !(condRowOk families r) then IO.println s!"cond {r.fam} [{showL r.fixed}]"
  for r in fitRows do
    if !(fitTableOk families scipyShapes baseMaps [r]) then IO.println s!"fit {r.fam} [{showL r.fixed}]"
  for r in lsqRows do
    if !(lsqRowOk families r) then IO.println s!"lsq {r.fam} [{showL r.fixed}]"
  IO.println "done"
"""
    os.makedirs(os.path.join(lean, "Audit"), exist_ok=True)
    path = os.path.join(lean, "Audit", f"{prop}_rows.lean")
    with open(path, "w") as f:
        f.write(src)
    p = subprocess.run(["lake", "env", "lean", "--run", path], cwd=lean, capture_output=True, text=True,
                       timeout=1200)
    out = {"get": [], "ctor": [], "cond": [], "fit": [], "lsq": []}
    if "done" not in p.stdout:
        raise core.MachineryError("could not evaluate the table predicates: " + (p.stdout + p.stderr)[-600:])

    def lst(s):
        s = s.strip("[]")
        return [int(v) for v in s.split(",")] if s else []

    fams = [n for n, _, _ in TABLES["families"]]
    for line in p.stdout.splitlines():
        t = line.split()
        if not t or t[0] == "done":
            continue
        if t[0] == "get":
            out["get"].append((fams[int(t[1])], METHS[int(t[2])], lst(t[3]), lst(t[4]), int(t[5])))
        elif t[0] == "ctor":
            out["ctor"].append((fams[int(t[1])], lst(t[2]), lst(t[3]), int(t[4])))
        else:
            out[t[0]].append((fams[int(t[1])], lst(t[2])))
    return out


# ---------------------------------------------------------------------------
# concrete execution of get-rows: translator self-check + override oracle


def ref_ppf(name, theta, ps):
    """quantiles by the documented parameterisation, straight from scipy (independent of virocon);
    only used to place the probe points"""
    t = theta
    with np.errstate(all="ignore"):
        if name == "WeibullDistribution":
            return sts.weibull_min.ppf(ps, t["beta"], t["gamma"], t["alpha"])
        if name == "LogNormalDistribution":
            return sts.lognorm.ppf(ps, t["sigma"], 0, np.exp(t["mu"]))
        if name == "NormalDistribution":
            return sts.norm.ppf(ps, t["mu"], t["sigma"])
        if name == "LogNormalNormFitDistribution":
            k = 1 + t["sigma_norm"] ** 2 / t["mu_norm"] ** 2
            return sts.lognorm.ppf(ps, np.sqrt(np.log(k)), 0, t["mu_norm"] / np.sqrt(k))
        if name == "ExponentiatedWeibullDistribution":
            return sts.exponweib.ppf(ps, t["delta"], t["beta"], 0, t["alpha"])
        if name == "GeneralizedGammaDistribution":
            return sts.gengamma.ppf(ps, t["m"], t["c"], 0, 1 / t["lambda_"])
        if name == "VonMisesDistribution":
            return sts.vonmises.ppf(ps, t["kappa"], t["mu"])
        return SCIPY_SUB[name].ppf(ps, **t)  # by NAME (shape names, loc, scale): scipy's own keyword interface


def probe_points(name, theta):
    """x (cdf/pdf) grid for one parameter vector: interior points at fixed quantiles of the documented
    distribution, plus points on / below / above the support."""
    ps = np.array([1e-3, 0.01, 0.1, 0.3, 0.5, 0.7, 0.9, 0.99, 0.999999])
    xin = np.asarray(ref_ppf(name, theta, ps), dtype=float)
    lo = float(ref_ppf(name, theta, 0.0))
    xin = xin[np.isfinite(xin)]
    span = float(xin[-1] - xin[0]) if len(xin) > 1 else 1.0
    if np.isfinite(lo):
        off = [lo, lo - 0.5 * span - 1e-3, lo - 10.0 * span - 1.0]
        if name != "VonMisesDistribution":
            off += [0.0, -1.0] if lo >= 0 else []
    else:
        # support unbounded below (normal, Gumbel): a point far in the lower tail (cdf -> 0, pdf -> 0)
        off = [float(xin[0] - 50.0 * span - 1.0)]
    if name == "VonMisesDistribution":
        hi = theta["mu"] + np.pi
        off += [hi, hi + 0.5, hi + 7.0]
    else:
        off += [float(xin[-1] + 50.0 * span + 1.0)]
    return xin, np.array(off, dtype=float), lo


def _sig(name, meth, predicate, **kw):
    d = {"entry": f"{name}.{meth}", "predicate": predicate}
    d.update(kw)
    return d


def run_rows(ck, rows, rng, n_val, only_fixed=None):
    """every given get-row, `n_val` random valuations each: (a) the symbolic slots, evaluated,
    equal what the code hands to scipy in a concrete run (translator self-check); (b) the real
    result equals the result of the instance constructed with the effective values (oracle)."""
    for row in rows:
        if only_fixed is not None and bool(row["fixed"]) != only_fixed:
            continue
        if row["fam"] in sentinel.FAMILY_ERRORS:
            continue
        name = row["fam"]
        cls, params = sentinel.family(name)
        k = len(params)
        for _ in range(n_val):
            arg = sentinel.random_values(rng, name, wide=False)
            farg = sentinel.random_values(rng, name, wide=False)
            expl = sentinel.random_values(rng, name, wide=False)
            if rng.integers(0, 4) == 0:
                # whole-number parameter values handed over as Python ints (an explicit lambda_=2, sigma=1, ...)
                expl = [int(max(1, round(v))) if v > 0 else int(round(v)) for v in expl]
            dep = sentinel.random_values(rng, name, wide=False)
            eff_theta = {params[p]: (farg[p] if (p in row["fixed"] and (row["mode"] == 2 or p not in row["expl"]))
                                     else dep[p] if row["mode"] == 2
                                     else expl[p] if p in row["expl"] else arg[p]) for p in range(k)}
            with np.errstate(all="ignore"), warnings.catch_warnings():
                warnings.simplefilter("ignore")
                xin, off, _ = probe_points(name, eff_theta)
                x = np.concatenate([xin[[1, 4, 7]], off[:2]]) if row["meth"] != "icdf" else np.array([0.0, 0.02, 0.5, 0.97, 1.0])
                case = {"kind": "row", "family": name, "meth": row["meth"], "fixed": row["fixed"],
                        "expl": row["expl"], "mode": row["mode"], "arg": arg, "farg": farg, "expl_values": expl,
                        "dep": dep, "x": [float(v) for v in x]}
                bad = check_row(ck, row, case)
            ck.case(case, nontrivial=bool(row["expl"] or row["fixed"]), sample=(len(ck.samples) < 2))
            ck.count("rows:" + name)
            for sig, detail in bad:
                ck.fail(sig, case, detail)


def check_row(ck, row, case):
    """returns list of (signature, detail) oracle failures; records translator divergences"""
    name, meth = case["family"], case["meth"]
    cls, params = sentinel.family(name)
    x = np.array(case["x"], dtype=float)
    bad = []
    got, eff = sentinel.run_get_row_concrete(case, case["arg"], case["farg"], case["expl_values"], case["dep"], x)
    pred = "conditional_uses_fixed" if case["mode"] == 2 else (
        "fixed_used_in_evaluation" if case["fixed"] and not case["expl"] else "explicit_equals_constructed")
    refuse = name == "LogNormalNormFitDistribution" and len(case["expl"]) == 1 and case["mode"] != 2
    if refuse:
        if got["exc"] is None or not got["exc"].startswith("RuntimeError"):
            bad.append((_sig(name, meth, "documented_refusal"), f"expected RuntimeError, got {got}"))
        return bad
    if got["exc"] is not None:
        bad.append((_sig(name, meth, pred + ":raises"), got["exc"]))
        return bad
    with np.errstate(all="ignore"):
        want = getattr(cls(**eff), meth)(x)
    if not sentinel.same_values(got["value"], want):
        which = [params[p] for p in (case["expl"] or case["fixed"])]
        bad.append((_sig(name, meth, pred),
                    f"{which}: call gives {np.asarray(got['value']).tolist()} but {name}(**{eff}).{meth}(x) gives "
                    f"{np.asarray(want).tolist()} for x={case['x']}"))
    if (case["mode"] == 2 or case["expl"]) and np.ndim(x) == 1:
        # the same call with one parameter value per point of x (ndarrays): explicit parameters / the values of the
        # dependence functions for an array of conditioning values
        got2, _ = sentinel.run_get_row_concrete(case, case["arg"], case["farg"], case["expl_values"], case["dep"], x,
                                                arrays=True)
        ck.count("rows:array_valued_parameters")
        if got2["exc"] is not None:
            bad.append((_sig(name, meth, pred + ":raises"), "array-valued parameters: " + got2["exc"]))
        elif not sentinel.same_values(got2["value"], want):
            which = [params[p] for p in (case["expl"] or case["fixed"])]
            bad.append((_sig(name, meth, pred),
                        f"{which} (parameter values as ndarrays of the shape of x): call gives {np.asarray(got2['value']).tolist()} "
                        f"but {name}(**{eff}).{meth}(x) gives {np.asarray(want).tolist()} for x={case['x']}"))
    # translator self-check: symbolic slots evaluated = arguments of the concrete scipy call
    if row is not None and row["result"] is not None:
        env = {}
        for p in range(len(params)):
            env[("arg", p)] = case["arg"][p]
            env[("farg", p)] = case["farg"][p]
            env[("expl", p)] = case["expl_values"][p]
            env[("dep", p)] = case["dep"][p]
        with sentinel.Recording() as rec:
            sentinel.run_get_row_concrete(case, case["arg"], case["farg"], case["expl_values"], case["dep"], x)
        if len(rec.calls) != 1:
            ck.diverge("translator:get", case, f"{len(rec.calls)} scipy calls in the concrete run")
        else:
            d, m, _, args, _ = rec.calls[0]
            sym = [sentinel.evaluate(e, env) for e in row["result"][2]]
            conc = [float(np.asarray(a)) for a in args]
            if (d, m) != row["result"][:2] or len(sym) != len(conc) or any(
                    abs(s - c) > 1e-14 * max(1.0, abs(s), abs(c)) for s, c in zip(sym, conc)):
                ck.diverge("translator:get", case, f"symbolic {row['result'][:2]} {sym} vs concrete {(d, m)} {conc}")
    return bad


# ---------------------------------------------------------------------------
# numeric correspondence with the documented formulas (Lean Float) and the consistency oracle


def leaf_value(name, key_params, arg):
    with np.errstate(all="ignore"):
        if name == "Phi":
            return float(sp.ndtr(arg))
        if name == "PhiInv":
            return float(sp.ndtri(arg))
        if name == "P":
            return float(sp.gammainc(key_params[0], arg))
        if name == "PInv":
            return float(sp.gammaincinv(key_params[0], arg))
        if name == "Gamma":
            return float(sp.gamma(key_params[0]))
        if name == "I0":
            return float(sp.i0(key_params[0]))
        if name == "V":
            return float(sts.vonmises.cdf(arg, key_params[0]))
        if name == "VInv":
            return float(sts.vonmises.ppf(arg, key_params[0]))
    raise KeyError(name)


def leaf_of(fam, meth, theta_list):
    """mirror of Drv.c05Leaf: (name, key params, per-x?)"""
    if fam in (1, 2, 3):
        return ("Phi", [], True) if meth == 0 else ("PhiInv", [], True) if meth == 1 else None
    if fam == 5:
        return [("P", [theta_list[0]], True), ("PInv", [theta_list[0]], True), ("Gamma", [theta_list[0]], False)][meth]
    if fam == 6:
        return [("V", [theta_list[0]], True), ("VInv", [theta_list[0]], True), ("I0", [theta_list[0]], False)][meth]
    return None


def model_values(ck, jobs):
    """jobs: list of (famIdx, methIdx, theta list, xs). Returns list of float arrays (or None + error)."""
    if ck.driver is None:
        raise core.MachineryError("model driver not available")
    l1 = [["RUN", "c05arg", str(f), str(m)] + fl(th) + fl(xs) for f, m, th, xs in jobs]
    a1 = ck.driver.run(l1)
    lines, marks = [], []
    seen = set()
    for (f, m, th, xs), ans in zip(jobs, a1):
        t = ans.split()
        if t[0] != "OK":
            raise core.MachineryError("driver c05arg: " + ans)
        args = [b2f(v) for v in t[2:]]
        lf = leaf_of(f, m, th)
        if lf is not None:
            nm, kp, perx = lf
            for a in (args if perx else args[:1]):
                key = (nm, tuple(f2b(v) for v in kp), f2b(a) if perx else None)
                if key in seen:
                    continue
                seen.add(key)
                val = leaf_value(nm, kp, a)
                toks = ["TABLE", nm] + [str(f2b(v)) for v in kp] + ([str(f2b(a))] if perx else []) + [str(f2b(val))]
                lines.append(toks)
        marks.append(len(lines))
        lines.append(["RUN", "c05", str(f), str(m)] + fl(th) + fl(xs))
    a2 = ck.driver.run(lines)
    out = []
    for ans in a2:
        t = ans.split()
        out.append(np.array([b2f(v) for v in t[2:]], dtype=float) if t[0] == "OK" else ans)
    return out


def close(a, b, rtol, atol):
    a = np.asarray(a, dtype=float)
    b = np.asarray(b, dtype=float)
    with np.errstate(all="ignore"):
        fin = np.isfinite(a) & np.isfinite(b)
        ok = (a == b) | (np.isnan(a) & np.isnan(b)) | (
            fin & (np.abs(a - b) <= atol + rtol * np.maximum(np.abs(a), np.abs(b))))
    return ok


def call(inst, meth, x, *a, **kw):
    with np.errstate(all="ignore"), warnings.catch_warnings():
        warnings.simplefilter("ignore")
        try:
            return getattr(inst, meth)(x, *a, **kw), None
        except Exception as e:  # noqa: BLE001
            return None, type(e).__name__ + ": " + str(e)[:120]


def scale_of(name, theta, xin):
    return float(max(xin[-2] - xin[1], 1e-300))


def explore_case(ck, name, theta, theta0, jobs, pending):
    """one parameter vector of one family: all impl-side oracles; queues the model jobs"""
    cls, params = sentinel.family(name)
    xin, off, lo = probe_points(name, theta)
    ps = np.array([0.0, 1e-4, 1e-3, 0.05, 0.3, 0.5, 0.8, 0.97, 0.9999, 1 - 1e-9, 1.0])
    xs = np.unique(np.concatenate([xin, off]))
    case = {"kind": "explore", "family": name, "theta": theta, "theta0": theta0,
            "x": [float(v) for v in xs], "p": [float(v) for v in ps]}
    bad = []
    try:
        A = cls(**theta)
    except Exception as e:  # noqa: BLE001
        ck.case(case, nontrivial=True, sample=False)
        ck.fail(_sig(name, "__init__", "constructs"), case, f"{name}(**{theta}) raises {type(e).__name__}: {e}")
        return case
    ref = {}
    for meth in METHS:
        arr = ps if meth == "icdf" else xs
        v, exc = call(A, meth, arr)
        if exc:
            bad.append((_sig(name, meth, "raises_on_ndarray"), exc))
            continue
        v = np.asarray(v, dtype=float)
        ref[meth] = v
        if v.shape != arr.shape:
            bad.append((_sig(name, meth, "shape"), f"result shape {v.shape} for input shape {arr.shape}"))
            continue
        # --- explicit parameters = constructed instance (all, default instance, positional, single)
        variants = [("all_explicit_kw", cls(**theta0), (), dict(theta)),
                    ("all_explicit_default_instance", cls(), (), dict(theta)),
                    ("all_explicit_positional", cls(**theta0), tuple(theta[p] for p in DOC_PARAMS[name]), {})]
        for label, inst, a, kw in variants:
            g, exc = call(inst, meth, arr, *a, **kw)
            if exc:
                bad.append((_sig(name, meth, "explicit_equals_constructed:raises"), f"{label}: {exc}"))
            elif not sentinel.same_values(g, v):
                bad.append((_sig(name, meth, "explicit_equals_constructed"),
                            f"[{label}] {name}(**{theta0 if 'default' not in label else {}}).{meth}(x, {a or kw}) = "
                            f"{np.asarray(g).tolist()} but {name}(**{theta}).{meth}(x) = {v.tolist()}; x={arr.tolist()}"))
        for p in DOC_PARAMS[name]:
            mixed = dict(theta0)
            mixed[p] = theta[p]
            g, exc = call(cls(**theta0), meth, arr, **{p: theta[p]})
            if name == "LogNormalNormFitDistribution":
                if exc is None or not exc.startswith("RuntimeError"):
                    bad.append((_sig(name, meth, "documented_refusal"), f"single explicit {p}: {exc or 'returned a number'}"))
                continue
            w, exc2 = call(cls(**mixed), meth, arr)
            if exc or exc2:
                bad.append((_sig(name, meth, "explicit_equals_constructed:raises"), f"{p}: {exc or exc2}"))
            elif not sentinel.same_values(g, w):
                bad.append((_sig(name, meth, "explicit_equals_constructed"),
                            f"{name}(**{theta0}).{meth}(x, {p}={theta[p]}) = {np.asarray(g).tolist()} but "
                            f"{name}(**{mixed}).{meth}(x) = {np.asarray(w).tolist()}; x={arr.tolist()}"))
        # --- array-valued explicit parameters (one value per element of x: the way ConditionalDistribution, IFORM and
        #     the highest-density contour call the distributions): constant arrays = the constructed instance; arrays
        #     that alternate between theta and theta0 = element-wise the two constructed instances
        v0, exc0 = call(cls(**theta0), meth, arr)
        if exc0 is None:
            v0 = np.asarray(v0, dtype=float)
            mask = (np.arange(len(arr)) % 2 == 0)
            const = {p: np.full(arr.shape, float(theta[p])) for p in DOC_PARAMS[name]}
            vary = {p: np.where(mask, float(theta[p]), float(theta0[p])) for p in DOC_PARAMS[name]}
            avar = [("all_explicit_array_kw", (), const, v),
                    ("all_explicit_array_positional", tuple(const[p] for p in DOC_PARAMS[name]), {}, v),
                    ("all_explicit_varying_array_kw", (), vary, np.where(mask, v, v0))]
            if name != "LogNormalNormFitDistribution":
                for p in DOC_PARAMS[name]:
                    mixed = dict(theta0)
                    mixed[p] = theta[p]
                    w, exc2 = call(cls(**mixed), meth, arr)
                    if exc2 is None:
                        avar.append((f"single_explicit_varying_array:{p}", (), {p: vary[p]},
                                     np.where(mask, np.asarray(w, dtype=float), v0)))
            for label, a, kw, want in avar:
                g, exc = call(cls(**theta0), meth, arr, *a, **kw)
                ck.count("explicit_array:" + label.split(":")[0])
                if exc:
                    bad.append((_sig(name, meth, "explicit_array_equals_constructed:raises"), f"{label}: {exc}"))
                elif not sentinel.same_values(g, want):
                    bad.append((_sig(name, meth, "explicit_array_equals_constructed"),
                                f"[{label}] {name}(**{theta0}).{meth}(x, {({k: np.asarray(t).tolist() for k, t in kw.items()} or [np.asarray(t).tolist() for t in a])}) = "
                                f"{np.asarray(g).tolist()} but the instances constructed with the element's values give "
                                f"{np.asarray(want).tolist()}; x={arr.tolist()}"))
            # --- an explicit parameter is an argument of that one call: the instance is the same afterwards
            R = cls(**theta0)
            before = {k: core.f2b(t) for k, t in R.parameters.items()}
            calls_ = [dict(theta)] + ([] if name == "LogNormalNormFitDistribution" else [{p: theta[p]} for p in DOC_PARAMS[name]])
            for kw in calls_:
                call(R, meth, arr, **kw)
                g, exc = call(R, meth, arr)
                try:
                    now = {k: core.f2b(t) for k, t in R.parameters.items()}
                except (TypeError, ValueError):
                    now = {k: repr(t) for k, t in R.parameters.items()}
                ck.count("instance_reuse_after_explicit_call")
                if exc or now != before or not sentinel.same_values(g, v0):
                    bad.append((_sig(name, meth, "explicit_call_leaves_instance_unchanged"),
                                f"inst = {name}(**{theta0}); inst.{meth}(x, **{kw}); then inst.parameters = {dict(R.parameters)} and "
                                f"inst.{meth}(x) = {exc or np.asarray(g).tolist()}, a fresh instance gives {v0.tolist()}; x={arr.tolist()}"))
                    break
        # --- array_like: list, list of ints, scalar float, python int
        g, exc = call(A, meth, [float(t) for t in arr])
        if exc:
            bad.append((_sig(name, meth, "array_like:list"), exc))
        elif not sentinel.same_values(g, v):
            bad.append((_sig(name, meth, "array_like:list"), f"list input {np.asarray(g).tolist()} vs ndarray {v.tolist()}"))
        for i in (0, len(arr) // 2, len(arr) - 1):
            g, exc = call(A, meth, float(arr[i]))
            if exc:
                bad.append((_sig(name, meth, "array_like:scalar"), exc))
            elif np.shape(g) != () or not sentinel.same_values(float(g), v[i]):
                bad.append((_sig(name, meth, "array_like:scalar"), f"scalar {arr[i]!r} -> {g!r}, in array {v[i]!r}"))
        g, exc = call(A, meth, tuple(float(t) for t in arr))
        if exc or not sentinel.same_values(g, v):
            bad.append((_sig(name, meth, "array_like:tuple"), exc or f"tuple input {np.asarray(g).tolist()} vs ndarray {v.tolist()}"))
        # whole numbers as Python ints / integer containers / integer-dtype arrays (probabilities: 0 and 1)
        ints = [0, 1] if meth == "icdf" else [int(t) for t in np.unique(np.round(arr[np.abs(arr) < 1e6]))][:6]
        if ints:
            gf, exc2 = call(A, meth, np.array(ints, dtype=float))
            for label, xi in (("int_list", ints), ("int_tuple", tuple(ints)), ("int64_ndarray", np.array(ints, dtype=np.int64)),
                              ("int32_ndarray", np.array(ints, dtype=np.int32))):
                gi, exc = call(A, meth, xi)
                ck.count("array_like:" + label)
                if exc or exc2:
                    bad.append((_sig(name, meth, "array_like:" + label), str(exc or exc2)))
                elif not sentinel.same_values(gi, gf):
                    bad.append((_sig(name, meth, "array_like:" + label),
                                f"{ints} -> {np.asarray(gi).tolist()} vs floats {np.asarray(gf).tolist()}"))
            if exc2 is None:
                for j in (0, len(ints) - 1):
                    gi, exc = call(A, meth, ints[j])
                    ck.count("array_like:int_scalar")
                    if exc or np.shape(gi) != () or not sentinel.same_values(float(gi), np.asarray(gf, dtype=float)[j]):
                        bad.append((_sig(name, meth, "array_like:int_scalar"),
                                    f"python int {ints[j]!r} -> {exc or gi!r}, as float {np.asarray(gf).tolist()[j]!r}"))
        # 0-d array = scalar; float32 array = the same numbers as float64; empty array -> empty result
        i = len(arr) // 2
        g, exc = call(A, meth, np.array(arr[i]))
        if exc or np.shape(g) != () or not sentinel.same_values(float(g), v[i]):
            bad.append((_sig(name, meth, "array_like:zero_dim"), f"0-d array {arr[i]!r} -> {exc or g!r}, in array {v[i]!r}"))
        a32 = arr.astype(np.float32)
        g, exc = call(A, meth, a32)
        w, exc2 = call(A, meth, a32.astype(float))
        ck.count("array_like:float32")
        if exc or exc2 or np.shape(g) != np.shape(w) or (meth != "icdf" and not sentinel.same_values(g, w, rtol=1e-5)):
            # float32 in: the same numbers as float64 must give the same cdf / pdf (scipy promotes); the quantile
            # function is evaluated by scipy.special in float32, its accuracy is not virocon's: only runs + shape
            bad.append((_sig(name, meth, "array_like:float32"),
                        str(exc or exc2) if (exc or exc2) else f"float32 input {np.asarray(g).tolist()} vs the same numbers as float64 {np.asarray(w).tolist()}"))
        g, exc = call(A, meth, np.array([], dtype=float))
        ck.count("array_like:empty")
        if exc or np.shape(g) != (0,):
            bad.append((_sig(name, meth, "array_like:empty"), exc or f"empty input gives shape {np.shape(g)}"))
        # outside the documented input (1-dimensional, real numbers): executed and counted, NO verdict
        for label, xi in (("2d", arr[: 2 * (len(arr) // 2)].reshape(2, -1)), ("nan", np.array([np.nan, arr[i]]))):
            g, exc = call(A, meth, xi)
            ck.count(f"observed_no_verdict:x_{label}:" + (exc.split(":")[0] if exc else "returned"))
    bad += endpoints(ck, name, theta, A)
    # --- mutual consistency on the instance's own outputs
    if all(m in ref for m in METHS):
        bad += consistency(name, theta, A, xs, ps, ref, lo)
    # --- documented formula
    if name in DRV_FAM:
        # closed form evaluated by the Lean model at Float; parameters handed over in the DOCUMENTED order
        f = DRV_FAM[name]
        th = [theta[p] for p in DOC_PARAMS[name]]
        for mi, meth in enumerate(METHS):
            if meth in ref:
                jobs.append((f, mi, th, list(ps if meth == "icdf" else xs)))
                pending.append((case, name, meth, ref[meth]))
    if name in SCIPY_SUB:
        # a ScipyDistribution subclass IS the scipy law with the same parameter names: scipy called by keyword
        # (independent of the order in which the code under test lists / forwards the parameters)
        d = SCIPY_SUB[name]
        for meth in METHS:
            if meth not in ref:
                continue
            arr = ps if meth == "icdf" else xs
            with np.errstate(all="ignore"):
                want = getattr(d, "ppf" if meth == "icdf" else meth)(arr, **theta)
            if not sentinel.same_values(ref[meth], want):
                bad.append((_sig(name, meth, "documented_formula"),
                            f"{name}(**{theta}).{meth} = {ref[meth].tolist()} but scipy.stats.{d.name}.{meth}(x, **{theta}) = {want.tolist()}"))
    nontrivial = len(xin) >= 5 and theta != cls().parameters
    ck.case(case, nontrivial=nontrivial, sample=(len(ck.samples) < 4))
    ck.count("explore:" + name)
    for sig, detail in bad:
        ck.fail(sig, case, detail)
    return case


def support_ends(name, theta):
    """(lower, upper) end of the support by the DOCUMENTED parameterisation (no scipy call); None: no verdict (the von
    Mises law as shipped is scipy's 2pi-periodic one on the whole line, its quantiles at 0 and 1 are scipy's business)"""
    t = theta
    if name == "WeibullDistribution":
        return float(t["gamma"]), np.inf
    if name in ("LogNormalDistribution", "LogNormalNormFitDistribution", "ExponentiatedWeibullDistribution",
                "GeneralizedGammaDistribution"):
        return 0.0, np.inf
    if name in ("NormalDistribution", "GumbelScipyDistribution"):
        return -np.inf, np.inf
    if name == "GammaScipyDistribution":
        return float(t["loc"]), np.inf
    if name == "BetaScipyDistribution":
        return float(t["loc"]), float(t["loc"]) + float(t["scale"])
    return None


def endpoints(ck, name, theta, A):
    """icdf(0) / icdf(1) = the ends of the support exactly (the documented closed forms give exactly these values; the
    conditioning-aware tolerance of the formula comparison is infinite there), cdf(-inf) = 0, cdf(+inf) = 1"""
    bad = []
    ends = support_ends(name, theta)
    for container in ("scalar", "ndarray"):
        q, exc = call(A, "icdf", np.array([0.0, 1.0]) if container == "ndarray" else 0.0)
        if container == "scalar" and exc is None:
            q1, exc = call(A, "icdf", 1.0)
            q = [q, q1]
        if exc:
            bad.append((_sig(name, "icdf", "raises_on_ndarray"), exc))
            continue
        q = [float(t) for t in np.asarray(q, dtype=float).ravel()]
        ck.count("icdf_endpoints:" + ("observed_no_verdict" if ends is None else "checked"))
        if ends is not None and not (q[0] == ends[0] and q[1] == ends[1]):
            bad.append((_sig(name, "icdf", "support_endpoints"),
                        f"{name}(**{theta}).icdf(0) = {q[0]!r}, icdf(1) = {q[1]!r} ({container}); the support is [{ends[0]!r}, {ends[1]!r}]"))
    c, exc = call(A, "cdf", np.array([-np.inf, np.inf]))
    if exc:
        bad.append((_sig(name, "cdf", "raises_on_ndarray"), "x = -inf, +inf: " + exc))
    else:
        c = np.asarray(c, dtype=float)
        ck.count("cdf_at_infinity")
        if not (c.shape == (2,) and c[0] == 0.0 and c[1] == 1.0):
            bad.append((_sig(name, "cdf", "limits_at_infinity"), f"cdf(-inf) = {c.tolist()[0]!r}, cdf(+inf) = {c.tolist()[-1]!r}"))
    for x in (np.inf, -np.inf):
        g, exc = call(A, "pdf", x)
        try:
            cls_ = "raises" if exc else ("zero" if float(g) == 0 else "nan" if np.isnan(float(g)) else "other")
        except (TypeError, ValueError):
            cls_ = "other"
        ck.count("observed_no_verdict:pdf_at_infinity:" + cls_)
    return bad


def consistency(name, theta, A, xs, ps, ref, lo):
    bad = []
    cdf, pdf, q = ref["cdf"], ref["pdf"], ref["icdf"]
    circ = name == "VonMisesDistribution"
    inside = np.ones(len(xs), dtype=bool)
    if circ:
        inside = (xs >= theta["mu"] - np.pi) & (xs <= theta["mu"] + np.pi)
    c, xc = cdf[inside], xs[inside]
    # a few units in the last place are rounding of the scipy leaf (vonmises.cdf(mu + pi) = 1.0000000000000002), not a
    # probability outside [0, 1]
    if np.any(np.isnan(c)) or np.any(c < -8 * np.finfo(float).eps) or np.any(c > 1 + 8 * np.finfo(float).eps):
        bad.append((_sig(name, "cdf", "range_0_1"), f"cdf values {c.tolist()} at {xc.tolist()}"))
    if np.any(np.diff(c) < -1e-15):
        j = int(np.argmin(np.diff(c)))
        bad.append((_sig(name, "cdf", "monotone"), f"cdf({xc[j]!r})={c[j]!r} > cdf({xc[j+1]!r})={c[j+1]!r}"))
    if np.isfinite(lo):
        below = xs <= lo
        if np.any(cdf[below] != 0):
            bad.append((_sig(name, "cdf", "zero_below_support"), f"cdf {cdf[below].tolist()} at {xs[below].tolist()} (support starts at {lo})"))
        strictly = xs < lo
        if not circ and np.any(pdf[strictly] != 0):
            bad.append((_sig(name, "pdf", "zero_off_support"), f"pdf {pdf[strictly].tolist()} at {xs[strictly].tolist()} (support starts at {lo})"))
    if len(c) and not circ and not np.isfinite(lo) and not (c[0] <= 1e-9):
        bad.append((_sig(name, "cdf", "limit_zero"), f"cdf({xc[0]!r}) = {c[0]!r} (support unbounded below)"))
    if len(c) and not (c[-1] >= 1 - 1e-9):
        bad.append((_sig(name, "cdf", "limit_one"), f"cdf({xc[-1]!r}) = {c[-1]!r}"))
    if np.any(np.isnan(pdf)) or np.any(pdf < 0):
        bad.append((_sig(name, "pdf", "nonnegative"), f"pdf {pdf.tolist()} at {xs.tolist()}"))
    # icdf ends and monotonicity
    if np.any(np.diff(q) < 0) or np.any(np.isnan(q)):
        bad.append((_sig(name, "icdf", "monotone"), f"icdf {q.tolist()} at {ps.tolist()}"))
    # cdf(icdf(p)) = p
    mid = (ps > 0) & (ps < 1)
    back, exc = call(A, "cdf", q[mid])
    if exc is None:
        err = np.abs(np.asarray(back) - ps[mid])
        fq, _ = call(A, "pdf", q[mid])
        with np.errstate(all="ignore"):
            # p-resolution of a double x: spacing(x) * pdf(x)
            tolp = 1e-9 + 4 * np.spacing(np.abs(q[mid])) * np.nan_to_num(np.asarray(fq, dtype=float), posinf=0.0)
        unbounded = ~np.isfinite(np.asarray(fq, dtype=float)) if fq is not None else np.zeros(len(err), dtype=bool)
        if np.any(unbounded & ~(err <= tolp)):
            # the density is infinite at the returned quantile (it rounded onto the end of the support, e.g. a gamma law
            # with shape < 1 and a non-zero location): spacing * pdf is meaningless there, the p-resolution of the double
            # is measured directly, p must lie between the cdf values of the neighbouring doubles
            qq = q[mid]
            dn, e1 = call(A, "cdf", qq - 2 * np.spacing(np.abs(qq)))
            up, e2 = call(A, "cdf", qq + 2 * np.spacing(np.abs(qq)))
            if e1 is None and e2 is None:
                inside_ = (np.asarray(dn) - 1e-9 <= ps[mid]) & (ps[mid] <= np.asarray(up) + 1e-9)
                err = np.where(unbounded & inside_, 0.0, err)
        if np.any(~(err <= tolp)):
            j = int(np.nanargmax(np.where(np.isnan(err), np.inf, err)))
            bad.append((_sig(name, "cdf", "cdf_of_icdf"), f"cdf(icdf({ps[mid][j]!r})) = {np.asarray(back)[j]!r}"))
    # icdf(cdf(x)) = x where the cdf is not saturated
    ok = inside & (cdf > 1e-3) & (cdf < 1 - 1e-6)
    if np.any(ok):
        back, exc = call(A, "icdf", cdf[ok])
        if exc is None:
            xo = xs[ok]
            span = float(xo.max() - xo.min()) if len(xo) > 1 else 1.0
            # conditioning: dx = dp / pdf
            with np.errstate(all="ignore"):
                tol = 1e-9 * np.maximum(np.abs(xo), span) + 4e-16 / np.maximum(pdf[ok], 1e-300)
            err = np.abs(np.asarray(back) - xo)
            if np.any(~(err <= tol)):
                j = int(np.argmax(err - tol))
                bad.append((_sig(name, "icdf", "icdf_of_cdf"), f"icdf(cdf({xo[j]!r})) = {np.asarray(back)[j]!r}"))
        # pdf = d/dx cdf (central difference, step = 1e-3 of the local scale mass/density)
        xo, fo, Fo = xs[ok], pdf[ok], cdf[ok]
        with np.errstate(all="ignore"):
            loc_scale = np.minimum(Fo, 1 - Fo) / np.maximum(fo, 1e-300)
            if np.isfinite(lo):
                loc_scale = np.minimum(loc_scale, xo - lo)
            h = 1e-3 * loc_scale
        good = np.isfinite(h) & (h > 1e-7 * np.abs(xo))  # else x +- h is dominated by the rounding of x
        if np.any(good):
            xo, fo, Fo, h = xo[good], fo[good], Fo[good], h[good]
            up, e1 = call(A, "cdf", xo + h)
            dn, e2 = call(A, "cdf", xo - h)
            if e1 is None and e2 is None:
                num = (np.asarray(up) - np.asarray(dn)) / ((xo + h) - (xo - h))
                # scipy evaluates the von Mises cdf for kappa >= 50 by a corrected normal approximation whose derivative
                # agrees with the density to ~3e-4 only (scipy's leaf, not virocon's map)
                rt = 2e-3 if circ and theta["kappa"] >= 50 else 1e-4
                tol = rt * np.abs(fo) + 1e-13 * Fo / h
                err = np.abs(num - fo)
                if np.any(~(err <= tol)):
                    j = int(np.argmax(err - tol))
                    bad.append((_sig(name, "pdf", "derivative_of_cdf"),
                                f"(cdf(x+h)-cdf(x-h))/2h = {num[j]!r} but pdf = {fo[j]!r} at x={xo[j]!r}, h={h[j]!r}"))
    return bad


def compare_model(ck, pending, results):
    for (case, name, meth, ref), mod in zip(pending, results):
        if isinstance(mod, str):
            ck.diverge("c05:" + name + "." + meth, case, "model error: " + mod)
            continue
        arr = np.array(case["p"] if meth == "icdf" else case["x"], dtype=float)
        # conditioning of the documented closed forms 1 - exp(-t), t = ((x-loc)/alpha)^beta, near t = 0
        extra = 0.0
        th = case["theta"]
        if name in ("WeibullDistribution", "ExponentiatedWeibullDistribution") and meth != "icdf":
            with np.errstate(all="ignore"):
                z = (arr - th.get("gamma", 0.0)) / th["alpha"]
                t = np.where(z > 0, z, 1.0) ** th["beta"]
                d = th.get("delta", 1.0)
                extra = 4e-16 * max(1.0, d, abs(d - 1.0)) / np.minimum(t, 1.0)
        if meth == "cdf":
            ok = close(ref, mod, 1e-9 + extra, 1e-13)
        elif meth == "pdf":
            ok = close(ref, mod, 2e-9 + extra, 1e-300)
        else:
            with np.errstate(all="ignore"):
                # the documented closed form is ill-conditioned where 1 - p (EW: 1 - p^(1/delta)) cancels
                q = arr ** (1.0 / case["theta"]["delta"]) if name == "ExponentiatedWeibullDistribution" else arr
                cond = 1e-9 + 2e-15 / np.minimum(q, 1 - q)
            with np.errstate(all="ignore"):
                ok = (ref == mod) | (np.abs(ref - mod) <= cond * np.maximum(np.abs(ref), np.abs(mod))
                                     + 1e-12 * abs(float(np.nanmedian(ref[np.isfinite(ref)]))))
            # p = 0 and p = 1: the tolerance above is infinite there; the documented closed form evaluated at Float gives
            # the end of the support itself (log 1 = 0, log 0 = -inf), so the comparison is exact
            if name != "VonMisesDistribution":
                end = ((arr == 0) | (arr == 1)) & ~np.isnan(mod)
                ok = np.where(end, ref == mod, ok)
        ck.hyp_checked += len(arr)
        if not np.all(ok):
            j = int(np.argmin(ok))
            ck.fail(_sig(name, meth, "documented_formula"), case,
                    f"{name}(**{case['theta']}).{meth}({arr[j]!r}) = {ref[j]!r}, documented formula gives {mod[j]!r}")


# ---------------------------------------------------------------------------


def check_documented_parameters(ck):
    """documented parameterisation: the family's parameters have the documented names in the documented order (the
    order of `.parameters` is the positional order of the constructor and of explicit parameters in a call; for a
    ScipyDistribution subclass: scipy's shape names, then loc, scale)"""
    for name, (pred, text) in sentinel.FAMILY_ERRORS.items():
        case = {"kind": "params", "family": name}
        ck.case(case, nontrivial=True, sample=False)
        ck.fail(_sig(name, "__init__" if pred == "constructs" else "parameters", pred), case, text)
    for name, cls, params in sentinel.live_families():
        case = {"kind": "params", "family": name}
        ck.case(case, nontrivial=True, sample=False)
        ck.count("params:" + name)
        bad = check_params(case)
        for sig, detail in bad:
            ck.fail(sig, case, detail)


def check_params(case):
    name = case["family"]
    cls, _ = sentinel.family(name)
    try:
        got = list(cls().parameters)
    except Exception as e:  # noqa: BLE001
        return [(_sig(name, "__init__", "constructs"), f"{name}() raises {type(e).__name__}: {e}")]
    if sorted(got) != sorted(DOC_PARAMS[name]):
        return [(_sig(name, "parameters", "documented_parameters"),
                 f"{name}().parameters lists {got}, the documented parameters are {DOC_PARAMS[name]}")]
    if got != DOC_PARAMS[name]:
        return [(_sig(name, "parameters", "documented_parameter_order"),
                 f"{name}().parameters lists {got}, documented (positional) order is {DOC_PARAMS[name]}")]
    return []


def observe_unknown_parameter_name(ck):
    """a keyword that names no parameter of the family, passed to cdf/icdf/pdf: C05 quantifies over the family's own
    parameters, so the outcome class gets NO verdict; the path is executed and counted"""
    for name, cls, params in sentinel.live_families():
        for meth in METHS:
            _, exc = call(cls(), meth, 0.5, nosuch=1.5)
            ck.count("observed_no_verdict:unknown_parameter_name:" + (exc.split(":")[0] if exc else "accepted"))


def corpus_cases():
    """witnesses of DESIGN section 4 #1 and #12 (corpus/C05/*.json, run first)"""
    import glob
    import json

    for fn in sorted(glob.glob(os.path.join(core.VERIF, "corpus", "C05", "*.json"))):
        c = json.load(open(fn))
        yield (c["family"], c["theta"], c["theta0"])


def main(ck):
    rng = np.random.default_rng(ck.seed)
    thorough = ck.tier == "thorough"
    ck.rule = (
        "(1) every row of the generated call table (family x method x explicit subset x calling convention) is "
        "re-executed with random concrete values: symbolic slots = concrete scipy arguments, result = instance "
        "constructed with the effective values; (2) per family, random admissible parameter vectors over several "
        "decades (scales 4 decades, shapes 2-3 decades incl. von Mises kappa >= 50, locations exactly 0.0 in a fixed "
        "share) x (x on / below / above the support from the family's own quantiles, +-inf for the cdf, p in [0,1] incl. 0 "
        "and 1 with icdf(0) / icdf(1) = ends of the support exactly) x (float ndarray, list, tuple, scalar, 0-d array, "
        "float32 / int64 / int32 ndarray, int list / tuple / Python int, empty array) x (constructed, all-explicit keyword "
        "/ positional / default instance, every single-parameter override, parameter values as ndarrays of the shape of "
        "x - constant and varying element-wise -, the instance re-used after an explicit-parameter call): documented "
        "formula (Lean Float, special functions tabled from scipy.special) "
        "and the consistency clauses; a case is non-trivial if its parameters are not the defaults and it has >= 5 "
        "interior support points (exploration) or at least one explicit parameter (rows); distinct by SHA1")
    ck.assumptions = [
        "special functions Phi, Phi^-1, regularised incomplete gamma and its inverse, Gamma, I0, standard von Mises "
        "cdf/ppf are leaves taken from scipy.special / scipy.stats standard forms (not from virocon)",
        "sentinel translator: a method that inspects the value of a parameter is reported (SentinelBranch), and every "
        "row is cross-checked against a concrete run",
        "2-dimensional x and NaN are outside the documented input (1-dimensional real numbers): executed and counted, no "
        "verdict; pdf(+-inf) likewise (scipy returns nan for some laws); the von Mises law is scipy's 2pi-periodic one on "
        "the whole line, its icdf(0) / icdf(1) get no verdict; float32 probabilities are evaluated by scipy.special in "
        "float32 (icdf: only runs + shape); for kappa >= 50 scipy's von Mises cdf is a corrected normal approximation "
        "whose numerical derivative matches the density to 2e-3 only",
    ]
    ck.partial = {
        "lognormal_*_partial, normal_*_partial, gg_*_partial, vonmises_*_partial":
            "inverse, monotonicity, range [0,1] and limit 0 / 1 laws proven relative to an abstract monotone Phi / "
            "P(m,.) / V_kappa with inverse, range and limits (scipy's contract); that scipy's special functions meet the contract, and pdf = d/dx cdf "
            "for these families, is observed numerically on the explored points only",
        "GammaScipyDistribution, BetaScipyDistribution (ScipyDistribution subclasses by scipy_dist_name), "
        "LogNormalNormFitDistribution":
            "no monotonicity / inverse / derivative theorem of their own: for the two subclasses only the identity-map "
            "theorem (scipy_subclass_identity_map: the parameters reach scipy's slots unchanged) is proven, for the norm-fit "
            "log-normal the moment map (lognormfit_moments, scipy_form_eq_documented_lognormfit) onto the log-normal formulas; "
            "cdf monotone from 0 to 1, icdf(cdf x) = x, cdf(icdf p) = p, pdf = d/dx cdf, pdf >= 0 are OBSERVED on the "
            "explored points only",
        "array-valued parameters, instance re-use, input containers, icdf(0) / icdf(1), cdf(+-inf)":
            "observed per run on the real code (the table theorems are about which expression reaches which scipy slot, not "
            "about the container type of a value)",
        "float rounding": "theorems are over the reals; agreement of the Float evaluation is observed (rtol 1e-9)",
    }
    # (0) a table theorem no longer holds -> name the rows with the Lean predicates, make them concrete
    rows = TABLES["get"]
    if ck.proof_problems:
        bad = lean_bad_rows("C05")
        ck.extra["table_rows_rejected_by_lean"] = [list(map(str, b)) for b in bad["get"]][:40]
        keys = {(a, b, tuple(c), tuple(d), e) for a, b, c, d, e in bad["get"]}
        named = [r for r in rows if (r["fam"], r["meth"], tuple(r["fixed"]), tuple(r["expl"]), r["mode"]) in keys
                 and not r["fixed"]]
        run_rows(ck, named, rng, 2)
    check_documented_parameters(ck)
    # (1) corpus
    jobs, pending = [], []
    for name, theta, theta0 in corpus_cases():
        explore_case(ck, name, theta, theta0, jobs, pending)
    # (2) all rows concretely (C05: rows without fixed parameters; fixed ones belong to C11)
    run_rows(ck, rows, rng, 3 if thorough else 1, only_fixed=False)
    # (3) exploration
    n_theta = 400 if thorough else 24
    for name, _, _ in sentinel.live_families():
        for _ in range(n_theta):
            theta = sentinel.random_theta(rng, name, wide=True)
            theta0 = sentinel.random_theta(rng, name, wide=True)
            explore_case(ck, name, theta, theta0, jobs, pending)
    results = model_values(ck, jobs)
    compare_model(ck, pending, results)
    observe_unknown_parameter_name(ck)
    ck.extra["exhaustive"] = False
    ck.extra["generated_rows"] = {k: len(TABLES[k]) for k in ("get", "ctor", "cond", "fit", "lsq")}
    ck.extra["generated_rows_exhaustive"] = True


def replay(ck, payload):
    case = payload["case"]
    if case["kind"] == "params":
        bad = check_params(case)
    elif case["kind"] == "row":
        row = None
        for r in TABLES["get"]:
            if (r["fam"], r["meth"], r["fixed"], r["expl"], r["mode"]) == (
                    case["family"], case["meth"], case["fixed"], case["expl"], case["mode"]):
                row = r
        bad = check_row(ck, row, case)
    else:
        jobs, pending = [], []
        n0 = len(ck.failures)
        explore_case(ck, case["family"], case["theta"], case["theta0"], jobs, pending)
        if jobs and ck.driver:
            compare_model(ck, pending, model_values(ck, jobs))
        bad = [(s, d) for s, _, d in ck.failures[n0:]]
    for sig, detail in bad:
        print("oracle:", sig, detail)
    return not bad
