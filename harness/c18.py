"""
C18 - ill-formed model, fit and contour specifications are rejected, not computed.

Malformed stream: every malformation class of the property x every position in otherwise valid
1-4 dimensional descriptions x every distribution family as carrier, singly (quick) and in pairs
(thorough).  Every case is an ABSTRACT specification (JSON) from which
  * the real objects are built and the real entry point is called (constructor / fit / slice_ /
    pdf / cdf / contour constructor); outcome canonicalised to accepted | rejected(class, dim, arg);
  * the token line for the Lean model (Model/Validate.lean, `validate...`) is derived.
Correspondence: same verdict, same exception class, same dimension / parameter where the code
names one.  Oracle (independent Python predicates `wf_*`, the declarative reading of the property):
ill-formed => some exception before any result; well-formed (the neighbours of every malformed
case) => accepted.  The Lean theorems `..._ok_iff_wellformed` are about the same predicates; the
harness also checks `model verdict == wf_*` on every case.
"""
import copy
import itertools
import re
import sys
import warnings

import numpy as np

KINDS = {"ValueError", "TypeError", "RuntimeError", "NotImplementedError", "IndexError", "AttributeError"}


# --------------------------------------------------------------------------------------------
# the real library (tree under test)


def _lin(x, a=1.0, b=0.1):
    return a + b * x


def _mu(x, a=0.2, b=0.1):
    return a + b * x


def _sig(x, a=0.3, b=0.02):
    return a + b * x


def _lib():
    import virocon
    from virocon import distributions as D

    import scipy.stats as sts

    class GammaScipy(D.ScipyDistribution):
        scipy_dist_name = "gamma"

    class GumbelScipy(D.ScipyDistribution):  # the other documented declaration; a scipy law without shape parameters
        scipy_dist = sts.gumbel_r

    fams = {
        "Weibull": D.WeibullDistribution,
        "LogNormal": D.LogNormalDistribution,
        "Normal": D.NormalDistribution,
        "ExpWeibull": D.ExponentiatedWeibullDistribution,
        "GenGamma": D.GeneralizedGammaDistribution,
        "VonMises": D.VonMisesDistribution,
        "ScipyGamma": GammaScipy,
        "ScipyGumbel": GumbelScipy,  # appended: the indices of the other carriers (`% 7` below) stay what they were
        # the log-normal with the (mean, standard deviation) parametrisation: a shipped subclass with its own
        # parameter names (mu_norm, sigma_norm) and closed-form fit; not in distributions.__all__
        "LogNormalNormFit": D.LogNormalNormFitDistribution,
    }
    return virocon, fams


V, FAM = _lib()
FAMILIES = list(FAM)
PARAMS = {f: list(FAM[f]().parameters) for f in FAMILIES}
FIXVAL = {"alpha": 1.5, "beta": 2.0, "gamma": 0.0, "mu": 0.5, "sigma": 0.4, "delta": 1.2, "m": 1.5,
          "c": 1.2, "lambda_": 1.0, "kappa": 2.0, "a": 2.0, "loc": 0.0, "scale": 1.0, "mu_norm": 2.0, "sigma_norm": 0.5}
CHEAP = ["Weibull", "LogNormal", "Normal"]


def kind_of(e):
    n = type(e).__name__
    return n if n in KINDS else "other:" + n


# --------------------------------------------------------------------------------------------
# abstract model descriptions


def cond_value(c):
    """abstract conditional_on value -> python object"""
    t = c[0]
    if t == "int":
        return int(c[1])
    if t == "npint":
        return np.int64(c[1])
    if t == "str":
        return str(c[1])
    if t == "float":
        return float(c[1])
    if t == "none":
        return None
    if t == "bool":
        return bool(c[1])
    raise KeyError(t)


def base_dim(fam, cond=None):
    """well-formed description of one dimension: unconditional, or conditional on `cond` with every
    parameter a dependence function"""
    d = {"fam": fam, "has_dist": True, "cond": None, "has_params": False, "dep": [], "fixed": [],
         "extra_keys": []}
    if cond is not None:
        d.update(cond=["int", cond], has_params=True, dep=list(PARAMS[fam]))
    return d


def build_desc(d, slicer=None):
    dist = FAM[d["fam"]](**{"f_" + p: FIXVAL[p] for p in d["fixed"]})
    desc = {}
    if d["has_dist"]:
        desc["distribution"] = dist
    if d["cond"] is not None:
        desc["conditional_on"] = cond_value(d["cond"])
    if d["has_params"]:
        desc["parameters"] = {p: V.DependenceFunction(_lin) for p in d["dep"]}
    for k in d["extra_keys"]:
        desc[k] = 1
    if slicer is not None:
        desc["intervals"] = slicer
    return desc


def wf_dim(i, d):
    """declarative well-formedness of dimension i (the property's list for model descriptions)"""
    if not d["has_dist"] or d["extra_keys"]:
        return False
    if d["cond"] is None:
        return True
    if not d["has_params"]:
        return False
    c = d["cond"]
    if c[0] not in ("int", "npint") or not (0 <= c[1] < i):
        return False
    names = PARAMS[d["fam"]]
    if any(p not in names for p in d["dep"]):
        return False
    return all((p in d["dep"]) != (p in d["fixed"]) for p in names)


def wf_model(dims):
    return len(dims) > 0 and all(wf_dim(i, d) for i, d in enumerate(dims))


def desc_line(dims, op="c18desc"):
    toks = ["RUN", op, str(len(dims))]
    for d in dims:
        names = PARAMS[d["fam"]]

        def pid(p):
            return names.index(p) if p in names else 100 + sum(ord(ch) for ch in p) % 50

        c = d["cond"]
        if c is None:
            ct = "-"
        elif c[0] in ("int", "npint"):
            ct = "i" + str(int(c[1]))
        else:
            ct = "x"
        dep = [pid(p) for p in d["dep"]]
        fixed = [pid(p) for p in d["fixed"]]
        toks += ["1" if d["has_dist"] else "0", ct, "1" if d["has_params"] else "0"]
        toks += [str(len(d["extra_keys"]))] + [str(k) for k in range(len(d["extra_keys"]))]
        toks += [str(len(names))] + [str(k) for k in range(len(names))]
        toks += [str(len(fixed))] + [str(k) for k in fixed]
        toks += [str(len(dep))] + [str(k) for k in dep]
    return toks


def parse_ans(ans):
    t = ans.split()
    if t[0] == "OK":
        return {"status": "accepted"}
    if t[0] == "ERR" and len(t) >= 5:
        out = {"status": "rejected", "kind": t[1], "check": t[2], "pos": int(t[3]), "arg": int(t[4])}
        if len(t) > 5:
            out["stage"] = t[5]
        return out
    raise RuntimeError("driver answer not understood: " + ans)


def _frame_local(tb, func_names, var):
    """innermost-last search of the traceback for a frame of one of `func_names` having local `var`"""
    found = None
    while tb is not None:
        f = tb.tb_frame
        if f.f_code.co_name in func_names and var in f.f_locals and "virocon" in f.f_code.co_filename:
            found = f.f_locals[var]
        tb = tb.tb_next
    return found


def run_model_ctor(dims, container="list"):
    """GlobalHierarchicalModel(dist_descriptions) on the real code"""
    try:
        descs = [build_desc(d) for d in dims]
        if container == "tuple":
            descs = tuple(descs)
    except Exception as e:  # noqa: BLE001  (building the ingredients must not fail)
        raise RuntimeError(f"harness could not build the description: {e!r}")
    try:
        with warnings.catch_warnings():
            warnings.simplefilter("ignore")
            m = V.GlobalHierarchicalModel(descs)
    except Exception as e:  # noqa: BLE001
        msg = str(e)
        out = {"status": "rejected", "kind": kind_of(e), "where": "constructor", "msg": msg[:160]}
        mm = re.search(r"dimension (\d+)", msg)
        if mm:
            out["dim"] = int(mm.group(1))
        else:
            dd = _frame_local(e.__traceback__, ("__init__",), "dist_desc")
            if dd is not None:
                idx = [k for k, x in enumerate(descs) if x is dd]
                if idx:
                    out["dim"] = idx[0]
        mm = re.search(r"but (\w+) was not defined|for parameter (\w+) both", msg)
        if mm:
            out["arg"] = mm.group(1) or mm.group(2)
        return out, None
    return {"status": "accepted", "where": "constructor"}, m


def downstream(dims):
    """what an accepted ill-formed model does afterwards (only used to describe a violation)"""
    res = {}
    real_empty_like = np.empty_like

    def filled(v):
        def f(a, *args, **kw):
            out = real_empty_like(a, *args, **kw)
            try:
                out[...] = v
            except Exception:  # noqa: BLE001
                pass
            return out
        return f

    def attempt(name, fn):
        try:
            with warnings.catch_warnings():
                warnings.simplefilter("ignore")
                r = fn()
            res[name] = "returned " + type(r).__name__
            return r
        except Exception as e:  # noqa: BLE001
            res[name] = f"{type(e).__name__}: {str(e)[:80]}"
            return None

    descs = [build_desc(d) for d in dims]
    m = V.GlobalHierarchicalModel(descs)
    n = len(dims)
    attempt("draw_sample(5)", lambda: m.draw_sample(5, random_state=1))
    attempt("pdf", lambda: m.pdf(np.full((1, n), 1.5)))
    coords = []
    for v in (0.25, 7.5):
        np.empty_like = filled(v)
        try:
            c = attempt("IFORMContour", lambda: V.IFORMContour(m, 0.1, n_points=6))
        finally:
            np.empty_like = real_empty_like
        coords.append(None if c is None else np.array(c.coordinates, dtype=float))
    if coords[0] is not None and coords[1] is not None:
        same = np.array_equal(coords[0], coords[1], equal_nan=True)
        res["IFORM coordinates depend on uninitialised memory (np.empty_like prefilled with 0.25 vs 7.5)"] = (
            not same
        )
        res["IFORM row 0"] = [coords[0][0].tolist(), coords[1][0].tolist()]
    return res


def mal_class(dims):
    """the classes of malformation present (for signatures and the input distribution)"""
    out = []
    if not dims:
        out.append("empty_model")
    for i, d in enumerate(dims):
        if not d["has_dist"]:
            out.append("no_distribution")
        if d["extra_keys"]:
            out.append("unknown_key")
        if d["cond"] is None:
            continue
        if not d["has_params"]:
            out.append("cond_no_params")
        c = d["cond"]
        if i == 0:
            out.append("first_conditional")
        elif c[0] not in ("int", "npint"):
            out.append("cond_on_non_integer")
        elif c[1] == i:
            out.append("cond_on_self")
        elif i < c[1] < len(dims):
            out.append("cond_on_later")
        elif c[1] >= len(dims) or c[1] < 0:
            out.append("cond_on_nonexistent")
        if d["has_params"]:
            names = PARAMS[d["fam"]]
            if any(p not in names for p in d["dep"]):
                out.append("unknown_param")
            if any(p in d["dep"] and p in d["fixed"] for p in names):
                out.append("param_both")
            if any(p not in d["dep"] and p not in d["fixed"] for p in names):
                out.append("param_neither")
    return sorted(set(out))


def structures(n):
    """all hierarchies of n dimensions: c[0] = None, c[i] in {None, 0..i-1}"""
    opts = [[None]] + [[None] + list(range(i)) for i in range(1, n)]
    return [list(c) for c in itertools.product(*opts)]


def make_conditional(d, i):
    """well-formed conditional version of dimension i >= 1 (if it is not conditional already)"""
    if d["cond"] is None:
        d = dict(d, cond=["int", i - 1], has_params=True, dep=list(PARAMS[d["fam"]]))
    return d


def injections(d, i, n):
    """(class, variant, new dim) single malformations of the well-formed dimension d at position i"""
    out = []
    names = PARAMS[d["fam"]]
    out.append(("no_distribution", "", dict(d, has_dist=False)))
    for ks in (["foo"], ["interval"], ["conditonal_on", "param"]):
        out.append(("unknown_key", ",".join(ks), dict(d, extra_keys=ks)))
    if d["cond"] is not None:
        out.append(("cond_no_params", "drop", dict(d, has_params=False, dep=[])))
    elif i >= 1:
        out.append(("cond_no_params", "add", dict(d, cond=["int", i - 1])))
    if i == 0:
        out.append(("first_conditional", "0", dict(d, cond=["int", 0], has_params=True, dep=list(names))))
        out.append(("first_conditional", "-1", dict(d, cond=["int", -1], has_params=True, dep=list(names))))
        out.append(("first_conditional", "none", dict(d, cond=["none"], has_params=True, dep=list(names))))
        out.append(("first_conditional", "str", dict(d, cond=["str", "a"], has_params=True, dep=list(names))))
        out.append(("first_conditional", "noparams", dict(d, cond=["int", 0])))
        return out
    c = make_conditional(d, i)
    out.append(("unknown_param", "foo", dict(c, dep=c["dep"] + ["foo"])))
    out.append(("unknown_param", "only", dict(c, dep=["foo"])))
    for p in names:  # every parameter of the family in turn is the offending one
        out.append(("param_both", p, dict(c, fixed=[p])))
        out.append(("param_neither", p, dict(c, dep=[q for q in c["dep"] if q != p])))
    out.append(("param_neither", "empty_dict", dict(c, dep=[])))  # "parameters": {}
    out.append(("cond_on_self", "", dict(c, cond=["int", i])))
    for k in range(i + 1, n):
        out.append(("cond_on_later", str(k), dict(c, cond=["int", k])))
    for v in (["int", n], ["int", n + 3], ["int", -1], ["int", -n - 1], ["npint", n], ["npint", -1]):
        out.append(("cond_on_nonexistent", f"{v[0]}{v[1]}", dict(c, cond=v)))
    for v in (["str", "a"], ["str", "0"], ["float", float(i - 1)], ["float", 0.5], ["none"], ["bool", True],
              ["bool", False]):
        out.append(("cond_on_non_integer", "".join(str(x) for x in v), dict(c, cond=v)))
    return out


def neighbours(d, i):
    """well-formed variations of the well-formed dimension d at position i"""
    out = [("base", d)]
    names = PARAMS[d["fam"]]
    if i >= 1:
        c = make_conditional(d, i)
        out.append(("conditional", c))
        out.append(("npint_index", dict(c, cond=["npint", c["cond"][1]])))
        out.append(("fixed_and_dependent_split", dict(c, fixed=[names[0]], dep=names[1:])))
        out.append(("first_index", dict(c, cond=["int", 0])))
    out.append(("parameters_without_conditional_on", dict(d, has_params=True, dep=list(names)) if d["cond"] is None else d))
    out.append(("fixed_unconditional", dict(d, fixed=[names[-1]]) if d["cond"] is None else d))
    return out


def model_cases(rng, thorough):
    """single malformations and their neighbours, exhaustive over structure x position x family"""
    # no dimension at all (the model's `emptyModel`; WellFormedModel demands ds != [])
    for cont in ("list", "tuple"):
        yield {"entry": "model", "gen": "single:empty_model", "variant": cont, "container": cont, "dims": []}
    for n in (1, 2, 3, 4):
        for si, c in enumerate(structures(n)):
            # the description list handed over as a tuple (any sequence of dicts is taken)
            yield {"entry": "model", "gen": "neighbour:container_tuple", "container": "tuple",
                   "dims": [base_dim(FAMILIES[(si + k) % len(FAMILIES)], c[k]) for k in range(n)]}
            for i in range(n):
                for fam in FAMILIES:
                    others = [FAMILIES[(si + k + i) % 7] for k in range(n)]
                    dims = [base_dim(fam if k == i else others[k], c[k]) for k in range(n)]
                    for name, nd in neighbours(dims[i], i):
                        yield {"entry": "model", "gen": "neighbour:" + name, "dims": dims[:i] + [nd] + dims[i + 1:]}
                    for cls, var, nd in injections(dims[i], i, n):
                        yield {"entry": "model", "gen": "single:" + cls, "variant": var, "pos": i,
                               "dims": dims[:i] + [nd] + dims[i + 1:]}


def _changes(basis, nd):
    return {k: nd[k] for k in nd if nd[k] != basis[k]}


def pair_at(dims, i, j, n):
    """all pairs (one malformation at position i, one at position j >= i) on the well-formed dims"""
    if i == j:
        basis = make_conditional(dims[i], i) if i >= 1 else dims[i]
        inj = injections(basis, i, n)
        for (c1, v1, d1), (c2, v2, d2) in itertools.combinations(inj, 2):
            ch1, ch2 = _changes(basis, d1), _changes(basis, d2)
            if c1 == c2 or set(ch1) & set(ch2):
                continue
            nd = dict(basis)
            nd.update(ch1)
            nd.update(ch2)
            if wf_dim(i, nd):
                continue  # e.g. "fixed as well" + "not dependent" of the same parameter cancel
            yield {"entry": "model", "gen": "pair-same", "classes": [c1, c2], "pos": [i, i],
                   "dims": dims[:i] + [nd] + dims[i + 1:]}
    else:
        for (c1, v1, d1) in injections(dims[i], i, n):
            for (c2, v2, d2) in injections(dims[j], j, n):
                nd = list(dims)
                nd[i], nd[j] = d1, d2
                yield {"entry": "model", "gen": "pair", "classes": [c1, c2], "pos": [i, j], "dims": nd}


def pair_cases(rng, n_cases=None):
    """two malformations (same or different positions); exhaustive when n_cases is None, else a sample"""
    if n_cases is None:
        for n in (1, 2, 3, 4):
            for si, c in enumerate(structures(n)):
                for fam in FAMILIES:
                    dims = [base_dim(fam if k % 2 == 0 else FAMILIES[(si + k) % 7], c[k]) for k in range(n)]
                    for i in range(n):
                        for j in range(i, n):
                            yield from pair_at(dims, i, j, n)
        return
    done = 0
    while done < n_cases:
        n = int(rng.integers(1, 5))
        st = structures(n)
        c = st[int(rng.integers(0, len(st)))]
        dims = [base_dim(FAMILIES[int(rng.integers(0, len(FAMILIES)))], c[k]) for k in range(n)]
        i = int(rng.integers(0, n))
        j = int(rng.integers(i, n))
        allp = list(pair_at(dims, i, j, n))
        for k in rng.choice(len(allp), size=min(6, len(allp)), replace=False):
            yield allp[int(k)]
            done += 1


POOL = None


def pmap(fn, items):
    """impl runs are independent: spread them over the worker pool in the thorough tier"""
    if POOL is None or len(items) < 400:
        return [fn(x) for x in items]
    return POOL.map(fn, items, chunksize=max(1, min(500, len(items) // 32)))


def _impl_model(x):
    return run_model_ctor(x[0], x[1])[0]


def process_model(ck, cases, state):
    lines = [desc_line(c["dims"]) for c in cases]
    answers = ck.driver.run(lines) if lines else []
    impls = pmap(_impl_model, [(c["dims"], c.get("container", "list")) for c in cases])
    for case, ans, impl in zip(cases, answers, impls):
        dims = case["dims"]
        model = parse_ans(ans)
        wf = wf_model(dims)
        expect_gen(case, wf)
        classes = mal_class(dims)
        ck.case(case, nontrivial=(not wf) or len(dims) >= 2,
                sample=(state["n"] % 997 == 0))
        state["n"] += 1
        ck.count("entry=model")
        ck.count("n_dim=%d" % len(dims))
        ck.count("model:" + ("wellformed" if wf else "illformed"))
        for cl in classes:
            ck.count("class=" + cl)
        if not wf and dims:
            ck.count("carrier=" + dims[case["pos"] if isinstance(case.get("pos"), int) else 0]["fam"])
        failed = False
        # the model's verdict is the declarative predicate (theorem model_desc_ok_iff_wellformed)
        if (model["status"] == "accepted") != wf:
            ck.diverge("validateDesc-vs-wellformed-predicate", case, f"model {model} wf_model {wf}")
        if not wf and impl["status"] == "accepted":
            failed = True
            sig = {"entry": "GlobalHierarchicalModel.__init__", "predicate": "illformed_description_rejected",
                   "class": classes[0] if classes else "?"}
            key = json_key(sig)
            detail = {"classes": classes, "model_says": model}
            if key not in state["shown"]:
                state["shown"].add(key)
                try:
                    detail["downstream"] = downstream(dims)
                except Exception as e:  # noqa: BLE001
                    detail["downstream"] = repr(e)
            ck.fail(sig, case, detail)
        if wf and impl["status"] != "accepted":
            failed = True
            ck.fail({"entry": "GlobalHierarchicalModel.__init__", "predicate": "wellformed_description_accepted"},
                    case, impl)
        d = compare_desc(impl, model, dims)
        if d is not None:
            if failed:
                ck.count("divergence_with_oracle_failure")
            else:
                ck.diverge("validateDesc", case, d)


def expect_gen(case, wf):
    """generator sanity: neighbours are well-formed, injected malformations are ill-formed"""
    g = case["gen"]
    if g.startswith("neighbour") and not wf:
        raise RuntimeError("harness generator bug: ill-formed neighbour " + json_key(case)[:400])
    if (g.startswith("single") or g.startswith("pair") or g.startswith("corpus")) and wf:
        raise RuntimeError("harness generator bug: well-formed malformation " + json_key(case)[:400])


def json_key(o):
    import json

    return json.dumps(o, sort_keys=True)


def compare_desc(impl, model, dims):
    if impl["status"] != model["status"]:
        return f"impl {impl} model {model}"
    if impl["status"] == "accepted":
        return None
    if model["kind"] != "leaf" and impl["kind"] != model["kind"]:
        return f"exception class impl {impl['kind']} ({impl.get('msg')}) model {model['kind']} ({model['check']})"
    if "dim" in impl and model["check"] not in ("emptyModel",) and impl["dim"] != model["pos"]:
        return f"reported dimension impl {impl['dim']} ({impl.get('msg')}) model {model['pos']} ({model['check']})"
    if "arg" in impl and model["check"] in ("paramNeither", "paramBoth"):
        names = PARAMS[dims[model["pos"]]["fam"]]
        if model["arg"] >= len(names) or names[model["arg"]] != impl["arg"]:
            return f"reported parameter impl {impl['arg']} model #{model['arg']} of {names}"
    return None


# --------------------------------------------------------------------------------------------
# fit


def mk_slicer(s):
    kw = {}
    if s.get("min_n_points") is not None:
        kw["min_n_points"] = s["min_n_points"]
    if s.get("min_n_intervals") is not None:
        kw["min_n_intervals"] = s["min_n_intervals"]
    for k in s.get("unknown_kwargs", []):
        kw[k] = 1
    for k, v in s.get("options", {}).items():
        # the named options of the three slicer classes; on the wrong class they end up in **kwargs
        kw[k] = tuple(v) if isinstance(v, list) else v
    ref = s.get("ref", ["default"])
    if ref[0] == "str":
        kw["reference"] = ref[1]
    elif ref[0] == "callable":
        kw["reference"] = np.median
    elif ref[0] == "int":
        kw["reference"] = 5
    elif ref[0] == "none":
        kw["reference"] = None
    if s["kind"] == "width":
        return V.WidthOfIntervalSlicer(s["width"], **kw)
    if s["kind"] == "number":
        return V.NumberOfIntervalsSlicer(s["n_intervals"], **kw)
    return V.PointsPerIntervalSlicer(s["n_points"], **kw)


def ref_tag(s):
    ref = s.get("ref", ["default"])
    if ref[0] == "default":
        return "callable" if s["kind"] == "ppi" else "center"
    if ref[0] == "str":
        low = ref[1].lower()
        return low if low in ("center", "left", "right") else "unknownStr"
    if ref[0] == "callable":
        return "callable"
    return "other"


OWN_OPTIONS = {"width": ("right_open", "value_range"), "number": ("include_max", "value_range"), "ppi": ("last_full",)}


def misplaced_options(s):
    """named options that belong to another slicer class (for this class: unknown keyword arguments)"""
    return [k for k in s.get("options", {}) if k not in OWN_OPTIONS[s["kind"]]]


def n_kept(s, x):
    """number of intervals with >= min_n_points observations (own computation, not the slicer's)"""
    x = np.asarray(x, dtype=float)
    mp = 50 if s.get("min_n_points") is None else s["min_n_points"]
    opt = {k: v for k, v in s.get("options", {}).items() if k in OWN_OPTIONS[s["kind"]]}
    vr = opt.get("value_range")
    if s["kind"] == "width":
        w = s["width"]
        lo0 = 0 if vr is None or vr[0] is None else vr[0]
        hi0 = np.max(x) if vr is None or vr[1] is None else vr[1]
        starts = np.arange(lo0, hi0 + w, w)
        if opt.get("right_open", True):
            counts = [int(np.sum((lo <= x) & (x < lo + w))) for lo in starts]
        else:
            counts = [int(np.sum((lo < x) & (x <= lo + w))) for lo in starts]
    elif s["kind"] == "number":
        k = s["n_intervals"]
        lo, hi = (float(np.min(x)), float(np.max(x))) if vr is None else (float(vr[0]), float(vr[1]))
        edges = lo + (hi - lo) * np.arange(k + 1) / k
        incl = opt.get("include_max", True)
        counts = [int(np.sum((edges[j] <= x) & ((x < edges[j + 1]) if (j < k - 1 or not incl) else (x <= hi))))
                  for j in range(k)]
    else:
        npts = s["n_points"]
        mp = min(mp, npts)
        full, rem = divmod(len(x), npts)
        counts = ([rem] if rem else []) + [npts] * full
    return sum(1 for c in counts if c >= mp)


def eff_min_n(s):
    mn = 3 if s.get("min_n_intervals") is None else s["min_n_intervals"]
    return mn


METHOD_TAG = {"mle": "mle", "lsq": "lsq", "wlsq": "wlsq"}


def method_value(m):
    return {"none": None, "int": 5}.get(m[0], m[1] if len(m) > 1 else None)


def method_tag(m):
    if m[0] != "str":
        return "nonString"
    return METHOD_TAG.get(m[1].lower(), "unknown")


def weights_value(w, n):
    t = w[0]
    if t == "none":
        return None
    if t == "str":
        return w[1]
    if t == "int":
        return 5
    if t == "array":
        return np.linspace(1.0, 2.0, n)
    if t == "array_nan":
        a = np.linspace(1.0, 2.0, n)
        a[n // 2] = np.nan
        return a
    if t == "array_inf":
        a = list(np.linspace(1.0, 2.0, n))
        a[0] = np.inf
        return a
    raise KeyError(t)


def weights_tag(w):
    t = w[0]
    if t == "none":
        return "none"
    if t == "str":
        low = w[1].lower()
        return low if low in ("linear", "quadratic", "cubic") else "unknownStr"
    if t == "int":
        return "nonIterable"
    if t == "array":
        return "arrayOk"
    return "arrayNonFinite"


def fit_data(n_rows, n_cols, seed):
    rng = np.random.default_rng(1000 + seed)
    cols = [rng.weibull(1.6, n_rows) * 1.5 + 0.3 for _ in range(n_cols)]
    return np.column_stack(cols) if n_cols else np.empty((n_rows, 0))


TABLE_FORMS = ("ndarray", "list", "tuple", "df", "fortran")


def data_shape(case):
    """shape of np.array(data) for the case's `data_form` (default: a 2-D ndarray of n_rows x data_dim):
    the table as ndarray / nested list / tuple of tuples / pandas DataFrame / Fortran-ordered array; `flat`: one
    column as a flat sequence of n_rows values; `row`: one observation (data_dim values) not wrapped in a
    table; `scalar`; `3ax_tail1`: the table with a trailing axis of length 1; `3ax_blocks`: the rows of the
    table split into 5 blocks (5, n_rows/5, data_dim)"""
    form = case.get("data_form", "ndarray")
    r, c = case["n_rows"], case["data_dim"]
    if form in TABLE_FORMS:
        return [r, c]
    if form in ("flat", "flat_list"):
        return [r]
    if form in ("row", "row_list"):
        return [c]
    if form == "scalar":
        return []
    if form == "3ax_tail1":
        return [r, c, 1]
    if form == "3ax_blocks":
        return [5, r // 5, c]
    raise KeyError(form)


def data_value(case):
    form = case.get("data_form", "ndarray")
    t = fit_data(case["n_rows"], case["data_dim"], case.get("data_seed", 0))
    if form == "ndarray":
        return t
    if form == "list":
        return t.tolist()
    if form == "tuple":
        return tuple(tuple(r) for r in t.tolist())
    if form == "df":
        import pandas as pd

        return pd.DataFrame(t, columns=["v%d" % k for k in range(t.shape[1])])
    if form == "fortran":
        return np.asfortranarray(t)
    if form == "flat":
        return np.ascontiguousarray(t[:, 0])
    if form == "flat_list":
        return t[:, 0].tolist()
    if form == "row":
        return np.ascontiguousarray(t[0, :])
    if form == "row_list":
        return t[0, :].tolist()
    if form == "scalar":
        return 1.5
    if form == "3ax_tail1":
        return t.reshape(t.shape + (1,))
    if form == "3ax_blocks":
        return t.reshape((5, t.shape[0] // 5, t.shape[1]))
    raise KeyError(form)


def fit_observed_only(case):
    """three or more axes whose LAST axis has n_dim entries: the code's data check (`shape[-1] != n_dim`) lets
    these through and what the numerical fits then do with 2-D columns is not validation; only observed"""
    sh = data_shape(case)
    return len(sh) >= 3 and sh[-1] == len(case["dims"])


def build_fit(case):
    dims = case["dims"]
    n = len(dims)
    descs = [build_desc(d, slicer=mk_slicer(case["slicers"][i])) for i, d in enumerate(dims)]
    with warnings.catch_warnings():
        warnings.simplefilter("ignore")
        m = V.GlobalHierarchicalModel(descs)
    data = data_value(case)
    if list(np.array(data).shape) != data_shape(case):
        raise RuntimeError("harness bug: data_shape disagrees with the data built for " + json_key(case)[:300])
    fd = case["fit_descs"]
    if fd is None:
        fds = None
    else:
        fds = []
        for x in fd:
            if x is None:
                fds.append(None)
                continue
            d = {}
            if x.get("method") is not None:
                d["method"] = method_value(x["method"])
            if x.get("weights") is not None:
                d["weights"] = weights_value(x["weights"], case["n_rows"])
            for k in x.get("extra", []):
                d[k] = 1
            fds.append(d)
    return m, data, fds


def fit_line(case):
    dims = case["dims"]
    n = len(dims)
    data = fit_data(case["n_rows"], max(case["data_dim"], n), case.get("data_seed", 0))
    toks = ["RUN", "c18fit", str(n)]
    for i, d in enumerate(dims):
        lsq_ok = d["fam"] == "ExpWeibull" and set(d["fixed"]) <= {"delta"}
        if d["cond"] is None:
            toks += ["u", "1" if lsq_ok else "0"]
        else:
            j = d["cond"][1]
            s = case["slicers"][j]
            mn = eff_min_n(s)
            if s["kind"] == "number":
                mn = min(mn, s["n_intervals"])
            toks += ["c", s["kind"], ref_tag(s), str(n_kept(s, data[:, j])), str(mn), "1" if lsq_ok else "0"]
    fd = case["fit_descs"]
    if fd is None:
        toks += ["-"]
    else:
        toks += [str(len(fd))]
        for x in fd:
            if x is None:
                toks += ["-"]
            else:
                has = x.get("method") is not None
                toks += ["d", "1" if has else "0", method_tag(x["method"]) if has else "mle",
                         weights_tag(x["weights"]) if x.get("weights") is not None else "none"]
    sh = data_shape(case)
    toks += [str(len(sh))] + [str(k) for k in sh]
    return toks


def wf_fit(case):
    """declarative well-formedness of a fit specification (model description is well-formed)"""
    dims = case["dims"]
    n = len(dims)
    fd = case["fit_descs"]
    if fd is not None:
        if len(fd) != n or any(x is not None and x.get("method") is None for x in fd):
            return False
    # the data is a table (exactly two axes) with one column per dimension
    if case.get("data_form", "ndarray") not in TABLE_FORMS or case["data_dim"] != n:
        return False
    data = fit_data(case["n_rows"], n, case.get("data_seed", 0))
    for i, d in enumerate(dims):
        if d["cond"] is not None:
            s = case["slicers"][d["cond"][1]]
            if s["kind"] != "ppi" and ref_tag(s) in ("unknownStr", "other"):
                return False
            k = n_kept(s, data[:, d["cond"][1]])
            mn = eff_min_n(s)
            if s["kind"] == "number":
                mn = min(mn, s["n_intervals"])
            if k < mn or k == 0:
                return False
        x = None if fd is None else fd[i]
        method = ["str", "mle"] if x is None else x["method"]
        weights = ["none"] if x is None or x.get("weights") is None else x["weights"]
        mt = method_tag(method)
        if mt == "mle":
            continue
        if mt not in ("lsq", "wlsq"):
            return False
        if not (d["fam"] == "ExpWeibull" and set(d["fixed"]) <= {"delta"}):
            return False
        if weights_tag(weights) in ("unknownStr", "nonIterable", "arrayNonFinite"):
            return False
    return True


def run_fit(case):
    m, data, fds = build_fit(case)
    try:
        with warnings.catch_warnings():
            warnings.simplefilter("ignore")
            m.fit(data, fds)
    except Exception as e:  # noqa: BLE001
        msg = str(e)
        out = {"status": "rejected", "kind": kind_of(e), "where": "fit", "msg": msg[:160]}
        mm = re.search(r"dimension (\d+)", msg)
        if mm and "fit_description" in msg:
            out["dim"] = int(mm.group(1))
        else:
            fm = _frame_local(e.__traceback__, ("fit",), "fit_descriptions")
            if fm is not None:
                out["dim"] = _frame_local(e.__traceback__, ("fit",), "conditioning_idx_marker")
                tb = e.__traceback__
                while tb is not None:
                    f = tb.tb_frame
                    if f.f_code.co_name == "fit" and "fit_descriptions" in f.f_locals:
                        out["dim"] = f.f_locals.get("i")
                    tb = tb.tb_next
        return out
    return {"status": "accepted", "where": "fit"}


def fit_base(rng, n, c, carrier_pos, fam, slicer_kind):
    dims = []
    for k in range(n):
        f = fam if k == carrier_pos else CHEAP[(k + n) % 3]
        dims.append(base_dim(f, c[k]))
    slicers = []
    for k in range(n):
        if slicer_kind == "number":
            slicers.append({"kind": "number", "n_intervals": 3, "min_n_points": 3, "min_n_intervals": 2})
        elif slicer_kind == "width":
            slicers.append({"kind": "width", "width": 1.2, "min_n_points": 10, "min_n_intervals": 2})
        else:
            slicers.append({"kind": "ppi", "n_points": 50, "min_n_points": 10})
    return {"entry": "fit", "dims": dims, "slicers": slicers, "fit_descs": None, "data_dim": n, "n_rows": 150,
            "data_seed": int(rng.integers(0, 5))}


def fit_structs(n, thorough):
    allc = structures(n)
    if thorough or n <= 2:
        return allc
    # chain, star, all-independent, and one mixed
    pick = [[None] + [k for k in range(n - 1)], [None] + [0] * (n - 1), [None] * n]
    if n == 4:
        pick.append([None, 0, None, 2])
    return [c for c in allc if c in pick]


def fit_cases(rng, thorough):
    for base, group in fit_groups(rng, thorough):
        yield from group


def fit_groups(rng, thorough):
    """(well-formed base, [its neighbours and single malformations]) per structure x position x family"""
    kinds = ["number", "width", "ppi"]
    for n in (1, 2, 3, 4):
        for si, c in enumerate(fit_structs(n, thorough)):
            for i in range(n):
                for fi, fam in enumerate(FAMILIES):
                    if not thorough and n >= 3 and (fi + i + si) % 3 != 0:
                        continue  # quick: every family at every position for n <= 2, a third of them above
                    base = fit_base(rng, n, c, i, fam, kinds[(si + i + fi) % 3])
                    yield base, list(_fit_variants(base, n, c, i, fam))


def _fit_variants(base, n, c, i, fam):
    def var(gen, **ch):
        x = copy.deepcopy(base)
        x.update(ch)
        x["gen"] = gen
        x["pos"] = i
        return x

    def descs_with(i, d):
        l = [None] * n
        l[i] = d
        return l

    # well-formed neighbours
    yield var("neighbour:default")
    yield var("neighbour:all_none", fit_descs=[None] * n)
    yield var("neighbour:method_MLE", fit_descs=descs_with(i, {"method": ["str", "MLE"]}))
    yield var("neighbour:mle_ignores_weights",
              fit_descs=descs_with(i, {"method": ["str", "mle"], "weights": ["str", "foo"]}))
    yield var("neighbour:extra_key", fit_descs=descs_with(i, {"method": ["str", "mle"], "extra": ["foo"]}))
    if fam == "ExpWeibull":
        for w in (["none"], ["str", "linear"], ["str", "Quadratic"], ["str", "CUBIC"]):
            yield var("neighbour:wlsq", fit_descs=descs_with(i, {"method": ["str", "wlsq"], "weights": w}))
        yield var("neighbour:lsq", fit_descs=descs_with(i, {"method": ["str", "LSQ"]}))
        if c[i] is None:
            yield var("neighbour:array_weights",
                      fit_descs=descs_with(i, {"method": ["str", "wlsq"], "weights": ["array"]}))
    # the same table handed over in the other array-like forms `fit` documents (np.array(data) is what counts)
    # (the conversion happens before any family-specific code: run with the carriers that have closed-form fits)
    for form in TABLE_FORMS[1:]:
        if fam in ("Normal", "LogNormal", "LogNormalNormFit") and (n <= 2 or (TABLE_FORMS.index(form) + i) % 2 == 0):
            yield var("neighbour:data_form", data_form=form)
    # malformed
    for dd in ([n - 1] if n > 1 else []) + [n + 1]:
        yield var("single:data_dim", data_dim=dd)
    # not a table: one column flat (last axis = n_rows), one observation flat (last axis = n_dim: passes the
    # dimension test, `data[:, 0]` fails), a scalar, a trailing extra axis (last axis 1 != n_dim for n_dim >= 2)
    for form in ("flat", "flat_list", "row", "row_list", "scalar"):
        yield var("single:data_not_a_table", data_form=form)
    yield var("single:data_not_a_table" if n > 1 else "observed:data_axes", data_form="3ax_tail1")
    yield var("single:data_not_a_table", data_form="3ax_blocks", data_dim=n + 1)
    if i == 0:
        yield var("observed:data_axes", data_form="3ax_blocks")
    for L in (n - 1, n + 1):
        yield var("single:fit_desc_length", fit_descs=[None] * L)
    yield var("single:no_method", fit_descs=descs_with(i, {"weights": ["none"]}))
    yield var("single:no_method", fit_descs=descs_with(i, {}))
    for mth in (["str", "foo"], ["str", "ml"], ["str", ""], ["int"], ["none"]):  # ["none"]: "method": None
        yield var("single:unknown_method", fit_descs=descs_with(i, {"method": mth}))
    for w in (["str", "foo"], ["str", "square"], ["int"], ["array_nan"], ["array_inf"]):
        yield var("single:unknown_weights", fit_descs=descs_with(i, {"method": ["str", "wlsq"], "weights": w}))
    for w in (["str", "foo"], ["int"]):  # plain least squares reads the weights keyword as well
        yield var("single:unknown_weights", fit_descs=descs_with(i, {"method": ["str", "lsq"], "weights": w}))
    if fam == "ExpWeibull":
        # least squares of the exponentiated Weibull is only implemented with no parameter or only delta fixed
        for fx, ok in ((["delta"], True), (["alpha"], False), (["beta"], False), (["alpha", "delta"], False)):
            for mth in ("lsq", "wlsq"):
                x = var("neighbour:lsq_fixed_delta" if ok else "single:lsq_unsupported",
                        fit_descs=descs_with(i, {"method": ["str", mth], "weights": ["str", "linear"]}))
                d = x["dims"][i]
                d["fixed"] = list(fx)
                if d["cond"] is not None:
                    d["dep"] = [p for p in d["dep"] if p not in fx]
                yield x
            if fx == ["alpha", "delta"]:  # ... maximum likelihood has no such restriction
                x = var("neighbour:mle_fixed", fit_descs=descs_with(i, {"method": ["str", "mle"]}))
                d = x["dims"][i]
                d["fixed"] = list(fx)
                if d["cond"] is not None:
                    d["dep"] = [p for p in d["dep"] if p not in fx]
                yield x
    if fam != "ExpWeibull":
        yield var("single:lsq_unsupported", fit_descs=descs_with(i, {"method": ["str", "lsq"]}))
    if c[i] is not None:
        j = c[i]
        if base["slicers"][j]["kind"] != "ppi":
            for ref in (["str", "foo"], ["str", "centre"], ["int"], ["none"]):
                x = var("single:unknown_reference")
                x["slicers"][j]["ref"] = ref
                yield x
            for ref in (["str", "LEFT"], ["str", "right"], ["callable"]):
                x = var("neighbour:reference")
                x["slicers"][j]["ref"] = ref
                yield x
        x = var("single:too_few_intervals")
        x["slicers"][j]["min_n_intervals"] = 7
        if x["slicers"][j]["kind"] == "number":
            x["slicers"][j]["n_intervals"] = 8
            x["slicers"][j]["min_n_points"] = 40
        yield x
        x = var("single:too_few_intervals")
        x["slicers"][j]["min_n_points"] = 140
        if x["slicers"][j]["kind"] == "ppi":
            x["slicers"][j]["n_points"] = 149
        yield x


def fit_pair_cases(rng, count):
    """two fit malformations of one base at once (the first in the code's order must be reported)"""
    groups = [(b, [c for c in g if c["gen"].startswith("single:")]) for b, g in fit_groups(rng, False)]
    done = 0
    while done < count:
        base, singles = groups[int(rng.integers(0, len(groups)))]
        a, b = (singles[int(k)] for k in rng.choice(len(singles), 2, replace=False))
        n = len(base["dims"])
        x = copy.deepcopy(a)
        x["gen"] = "pair:" + a["gen"][7:] + "+" + b["gen"][7:]
        if b["data_dim"] != base["data_dim"]:
            x["data_dim"] = b["data_dim"]
        if "data_form" in b and "data_form" not in a:
            x["data_form"] = b["data_form"]
        if b["fit_descs"] != base["fit_descs"]:
            if a["fit_descs"] == base["fit_descs"]:
                x["fit_descs"] = copy.deepcopy(b["fit_descs"])
            elif len(a["fit_descs"]) == n and len(b["fit_descs"]) == n:
                for k in range(n):
                    if x["fit_descs"][k] is None:
                        x["fit_descs"][k] = copy.deepcopy(b["fit_descs"][k])
        for k in range(n):
            if b["slicers"][k] != base["slicers"][k] and a["slicers"][k] == base["slicers"][k]:
                x["slicers"][k] = copy.deepcopy(b["slicers"][k])
        x["pos"] = [a["pos"], b["pos"]]
        done += 1
        yield x


def process_fit(ck, cases, state):
    lines = [fit_line(c) for c in cases]
    answers = ck.driver.run(lines) if lines else []

    def fkey(case):
        return json_key({k: case.get(k) for k in ("dims", "slicers", "fit_descs", "data_dim", "n_rows", "data_seed",
                                                   "data_form")})

    todo = {}
    for case in cases:
        k = fkey(case)
        if k not in state["fit_cache"] and k not in todo:
            todo[k] = case
    for k, impl in zip(todo, pmap(run_fit, list(todo.values()))):
        state["fit_cache"][k] = impl
    for case, ans in zip(cases, answers):
        model = parse_ans(ans)
        impl = state["fit_cache"][fkey(case)]
        form = case.get("data_form", "ndarray")
        if form != "ndarray":
            ck.count("fit:data_form=" + form + ":" + impl["status"])
        if fit_observed_only(case):
            ck.case(case, nontrivial=True, sample=False)
            ck.count("entry=fit")
            ck.count("observed_only:fit_data_with_%d_axes_last_axis_n_dim:%s" % (
                len(data_shape(case)), impl["status"] + (":" + impl["kind"] if impl["status"] == "rejected" else "")))
            continue
        wf = wf_fit(case)
        expect_gen(case, wf)
        ck.case(case, nontrivial=True, sample=(state["n"] % 397 == 0))
        state["n"] += 1
        ck.count("entry=fit")
        ck.count("fit:" + case["gen"].split(":")[0] + ":" + ("wellformed" if wf else "illformed"))
        ck.count("fitgen=" + case["gen"])
        failed = False
        if wf and impl["status"] == "rejected" and str(impl.get("msg", "")).startswith("Failed to fit dependence function"):
            # a numerical failure of the least-squares optimiser on these particular estimates (e.g. a degenerate
            # small-sample estimate of 1e11 in one interval), raised after the specification had been accepted: it says
            # nothing about how ill-formed specifications are treated
            ck.count("fit:optimiser_failure_on_wellformed_spec")
            continue
        if (model["status"] == "accepted") != wf:
            ck.diverge("validateFit-vs-wellformed-predicate", case, f"model {model} wf_fit {wf}")
        if not wf and impl["status"] == "accepted":
            failed = True
            ck.fail({"entry": "GlobalHierarchicalModel.fit", "predicate": "illformed_fit_rejected",
                     "class": case["gen"].split(":", 1)[1]}, case, {"model_says": model})
        if wf and impl["status"] != "accepted":
            failed = True
            ck.fail({"entry": "GlobalHierarchicalModel.fit", "predicate": "wellformed_fit_accepted",
                     "class": case["gen"].split(":", 1)[1]}, case, impl)
        d = None
        if impl["status"] != model["status"]:
            d = f"impl {impl} model {model}"
        elif impl["status"] == "rejected":
            if model["kind"] != "leaf" and impl["kind"] != model["kind"]:
                d = f"exception class impl {impl['kind']} ({impl.get('msg')}) model {model['kind']} ({model['check']})"
            elif "dim" in impl and impl["dim"] is not None and model["check"] not in ("fitLength", "dataDim") \
                    and impl["dim"] != model["pos"]:
                d = f"reported dimension impl {impl['dim']} model {model['pos']} ({model['check']})"
        if d is not None:
            if failed:
                ck.count("divergence_with_oracle_failure")
            else:
                ck.diverge("validateFit", case, d)


# --------------------------------------------------------------------------------------------
# slicers on their own


def slicer_cases(rng, thorough):
    bases = [
        {"kind": "width", "width": 1.0, "min_n_points": 1},
        {"kind": "number", "n_intervals": 4, "min_n_points": 1},
        {"kind": "ppi", "n_points": 10, "min_n_points": 1},
    ]
    for b in bases:
        for seed in range(3 if thorough else 1):
            def var(gen, **ch):
                x = {"entry": "slicer", "gen": gen, "slicer": dict(b, **ch), "n_rows": 40, "data_seed": seed}
                return x

            yield var("neighbour:default_ref")
            for kws in (["foo"], ["min_points"], ["min_n_interval"], ["n_min_points", "foo"], ["reference_"],
                        ["value_ranges"]):
                yield var("single:unknown_kwarg", unknown_kwargs=kws)
                yield var("pair:unknown_kwarg+reference", unknown_kwargs=kws, ref=["str", "foo"])
            for ref in (["str", "center"], ["str", "LEFT"], ["str", "Right"], ["callable"]):
                yield var("neighbour:reference" if (b["kind"] != "ppi" or ref[0] == "callable") else "single:unknown_reference",
                          ref=ref)
            for ref in (["str", "foo"], ["str", "centre"], ["str", "median"], ["int"], ["none"]):
                yield var("single:unknown_reference", ref=ref)
                yield var("pair:unknown_reference+too_few", ref=ref, min_n_intervals=30)
            # the named options of the slicer classes: accepted by the class that defines them, an unknown
            # keyword argument for the other classes (they arrive in **kwargs of IntervalSlicer.__init__)
            named = [("right_open", False), ("right_open", True), ("include_max", False), ("include_max", True),
                     ("last_full", False), ("last_full", True), ("value_range", [0.5, 3.0]), ("value_range", [1.0, 4.0])]
            if b["kind"] == "width":
                named += [("value_range", [None, 3.0]), ("value_range", [0.5, None]), ("value_range", [None, None])]
            for k, v in named:
                own = k in OWN_OPTIONS[b["kind"]]
                yield var("neighbour:own_option" if own else "single:misplaced_option", options={k: v},
                          min_n_intervals=2)
                if not own:
                    yield var("pair:misplaced_option+reference", options={k: v}, ref=["str", "foo"])
                    yield var("pair:misplaced_option+own_option",
                              options={k: v, OWN_OPTIONS[b["kind"]][0]: False})
            # the constructor arguments of the other classes are unknown keywords as well
            for k in ("width", "n_intervals", "n_points"):
                if k not in b:
                    yield var("single:misplaced_option", unknown_kwargs=[k])
            if b["kind"] != "ppi":
                yield var("neighbour:own_option", options={OWN_OPTIONS[b["kind"]][0]: False, "value_range": [0.5, 3.5]},
                          min_n_intervals=2)
            for mn in (0, 1, 2, 3, 4, 5, 6, 9, 30):
                yield var("minn", min_n_intervals=mn)
            for mp in (1, 5, 11, 20, 41):
                for mn in (1, 3):
                    yield var("minpts", min_n_points=mp, min_n_intervals=mn)


def slicer_line(case):
    s = case["slicer"]
    x = fit_data(case["n_rows"], 1, case["data_seed"])[:, 0]
    return ["RUN", "c18slicer", s["kind"], str(len(s.get("unknown_kwargs", [])) + len(misplaced_options(s))), ref_tag(s),
            str(s.get("n_intervals", 0)), str(eff_min_n(s)), str(n_kept(s, x))]


def wf_slicer(case):
    s = case["slicer"]
    x = fit_data(case["n_rows"], 1, case["data_seed"])[:, 0]
    if s.get("unknown_kwargs") or misplaced_options(s):
        return False
    rt = ref_tag(s)
    if s["kind"] == "ppi":
        if rt != "callable":
            return False
    elif rt in ("unknownStr", "other"):
        return False
    mn = eff_min_n(s)
    if s["kind"] == "number":
        mn = min(mn, s["n_intervals"])
    k = n_kept(s, x)
    return k >= mn and k >= 1


def run_slicer(case):
    x = fit_data(case["n_rows"], 1, case["data_seed"])[:, 0]
    try:
        sl = mk_slicer(case["slicer"])
    except Exception as e:  # noqa: BLE001
        return {"status": "rejected", "kind": kind_of(e), "where": "constructor", "msg": str(e)[:160]}
    try:
        with warnings.catch_warnings():
            warnings.simplefilter("ignore")
            masks, refs, bounds = sl.slice_(x)
    except Exception as e:  # noqa: BLE001
        return {"status": "rejected", "kind": kind_of(e), "where": "slice", "msg": str(e)[:160]}
    out = {"status": "accepted", "where": "slice", "K": len(masks)}
    try:
        out["refs_numeric"] = bool(len(refs) == len(masks) and all(r is not None and np.isfinite(float(r)) for r in refs))
    except Exception:  # noqa: BLE001
        out["refs_numeric"] = False
    return out


def process_slicer(ck, cases, state):
    lines = [slicer_line(c) for c in cases]
    answers = ck.driver.run(lines) if lines else []
    for case, ans in zip(cases, answers):
        model = parse_ans(ans)
        wf = wf_slicer(case)
        expect_gen(case, wf)
        impl = run_slicer(case)
        ck.case(case, nontrivial=True, sample=(state["n"] % 97 == 0))
        state["n"] += 1
        ck.count("entry=slicer")
        ck.count("slicer:" + case["slicer"]["kind"] + ":" + ("wellformed" if wf else "illformed"))
        failed = False
        if (model["status"] == "accepted") != wf:
            ck.diverge("validateSlicer-vs-wellformed-predicate", case, f"model {model} wf_slicer {wf}")
        entry = {"width": "WidthOfIntervalSlicer", "number": "NumberOfIntervalsSlicer",
                 "ppi": "PointsPerIntervalSlicer"}[case["slicer"]["kind"]]
        if not wf and impl["status"] == "accepted":
            failed = True
            ck.fail({"entry": entry, "predicate": "illformed_slicer_rejected", "class": case["gen"].split(":")[-1]},
                    case, {"impl": impl, "model_says": model})
        if wf and impl["status"] != "accepted":
            failed = True
            ck.fail({"entry": entry, "predicate": "wellformed_slicer_accepted"}, case, impl)
        if wf and impl["status"] == "accepted" and not impl["refs_numeric"]:
            failed = True
            ck.fail({"entry": entry, "predicate": "references_are_numbers"}, case, impl)
        d = None
        if impl["status"] != model["status"]:
            d = f"impl {impl} model {model}"
        elif impl["status"] == "rejected":
            if model["kind"] != "leaf" and impl["kind"] != model["kind"]:
                d = f"exception class impl {impl['kind']} ({impl.get('msg')}) model {model['kind']} ({model['check']})"
            elif {"ctor": "constructor", "slice": "slice"}[model["stage"]] != impl["where"]:
                d = f"rejected at impl {impl['where']} model {model['stage']}"
        if d is not None:
            if failed:
                ck.count("divergence_with_oracle_failure")
            else:
                ck.diverge("validateSlicer", case, d)


# --------------------------------------------------------------------------------------------
# evaluation models (set parameters), HDC grids, points, 2-D-only contours, IFORM model type


def eval_model(n, variant=0):
    descs = [{"distribution": V.WeibullDistribution(1.5, 2.0, 0.0)}]
    for i in range(1, n):
        if (i + variant) % 2 == 1:
            descs.append({"distribution": V.LogNormalDistribution(), "conditional_on": i - 1,
                          "parameters": {"mu": V.DependenceFunction(_mu), "sigma": V.DependenceFunction(_sig)}})
        else:
            descs.append({"distribution": V.WeibullDistribution(2.0, 1.8, 0.0)})
    return V.GlobalHierarchicalModel(descs)


LIM_VALUES = {
    # well-formed (min, max) in the forms a user writes them: all `LimTag.tuple 2` for the model
    "t2": (0, 4), "t2f": (0.0, 4.0), "t2l": [0, 4], "t2a": ("array", [0.0, 4.0]), "t2np": ("npints", [0, 4]),
    # two entries that are not numbers (`LimTag.nonNumeric`)
    "e_none0": (None, 4), "e_none1": (0, None), "e_str": "ab", "e_strs": ("0", "4"), "e_nested": ((0, 1), (2, 3)),
    # two numbers, one of them not finite (`LimTag.nonFinite`)
    "x_nan0": (float("nan"), 4), "x_nan1": (0, float("nan")), "x_inf": (0, float("inf")),
    "x_ninf": (float("-inf"), 4),
}


def lim_value(t):
    if t == "s":
        return 4
    if t in LIM_VALUES:
        v = LIM_VALUES[t]
        if isinstance(v, tuple) and len(v) == 2 and v[0] == "array":
            return np.array(v[1])
        if isinstance(v, tuple) and len(v) == 2 and v[0] == "npints":
            return (np.int64(v[1][0]), np.int64(v[1][1]))
        return v
    k = int(t[1:])
    return tuple([0, 4, 5, 6][:k])


def lim_tok(t):
    """token for the model"""
    if t in LIM_VALUES:
        return "t2" if t.startswith("t2") else t[0]
    return t


def lim_ok(t):
    return t in LIM_VALUES and t.startswith("t2")


def dval_value(v):
    return {"p": 0.5, "z": 0.0, "n": -0.5, "x": float("nan")}[v]


def grid_cases(rng, thorough):
    for n in (1, 2, 3) + ((4,) if thorough else ()):
        ok_l = ["t2"] * n
        delta_forms = [["s", "p"], ["l"] + ["p"] * n, ["tuple"] + ["p"] * n, ["array"] + ["p"] * n]

        def var(gen, limits, deltas):
            return {"entry": "grid", "gen": gen, "n_dim": n, "limits": limits, "deltas": deltas}

        for df in delta_forms:
            yield var("neighbour:deltas_" + df[0], ok_l, df)
        yield var("neighbour:limits_none", None, ["s", "p"])
        if n == 1:
            yield var("neighbour:deltas_none", ok_l, None)
            yield var("neighbour:both_none", None, None)
        for L in sorted({0, n - 1, n + 1, n + 2}):
            if L != n:
                for df in (["s", "p"], None, ["l"] + ["p"] * L, ["l"] + ["p"] * n):
                    yield var("single:limits_length", (["t2"] * L), df)
        for i in range(n):
            for t in ("t0", "t1", "t3", "t4", "s"):
                lims = list(ok_l)
                lims[i] = t
                for df in (["s", "p"], None, ["l"] + ["p"] * n):
                    yield var("single:limit_tuple", lims, df)
                # second malformed tuple later on / wrong deltas length as well
                if i + 1 < n:
                    l2 = list(lims)
                    l2[n - 1] = "s" if t != "s" else "t3"
                    yield var("pair:limit_tuple+limit_tuple", l2, ["s", "p"])
                    yield var("pair:limit_tuple+limit_tuple", l2, None)
                yield var("pair:limit_tuple+deltas_length", lims, ["l"] + ["p"] * (n + 1))
                yield var("pair:limit_tuple+delta_value", lims, ["l"] + ["p"] * (n - 1) + ["z"])
                yield var("pair:limit_tuple+delta_value", lims, ["l"] + ["n"] + ["p"] * (n - 1))
        # value-level variants of one limit entry: other spellings of a well-formed (min, max); entries that are
        # not numbers; non-finite entries - each with given and with default deltas
        for i in range(n):
            for t in LIM_VALUES:
                if t == "t2":
                    continue
                lims = list(ok_l)
                lims[i] = t
                for df in (["s", "p"], None, ["l"] + ["p"] * n):
                    if df is None and lim_ok(t) and n > 1:
                        continue  # default deltas: 400 cells per axis, only computed for one dimension
                    yield var("neighbour:limit_spelling" if lim_ok(t) else "single:limit_entry", lims, df)
                if not lim_ok(t) and i + 1 < n:
                    l2 = list(lims)
                    l2[n - 1] = "t3"
                    yield var("pair:limit_entry+limit_tuple", l2, ["s", "p"])
        for cont in ("tuple", "array"):
            yield {"entry": "grid", "gen": "neighbour:limits_container", "n_dim": n, "limits": list(ok_l),
                   "deltas": ["s", "p"], "limits_container": cont}
        for L in sorted({0, n - 1, n + 1, n + 3}):
            if L != n:
                for form in ("l", "tuple", "array"):
                    yield var("single:deltas_length", ok_l, [form] + ["p"] * L)
                    yield var("single:deltas_length", None, [form] + ["p"] * L)
        for i in range(n):
            for v in ("z", "n", "x"):
                dv = ["p"] * n
                dv[i] = v
                yield var("single:delta_value", ok_l, ["l"] + dv)
                if n == 1 or i == 0:
                    yield var("single:delta_value", ok_l, ["s", v])


def grid_line(case):
    n = case["n_dim"]
    toks = ["RUN", "c18grid", str(n)]
    if case["limits"] is None:
        toks += ["-"]
    else:
        toks += [str(len(case["limits"]))] + [lim_tok(t) for t in case["limits"]]
    d = case["deltas"]
    if d is None:
        toks += ["-"]
    elif d[0] == "s":
        toks += ["s", d[1]]
    else:
        toks += ["l", str(len(d) - 1)] + d[1:]
    return toks


def wf_grid(case):
    n = case["n_dim"]
    if case["limits"] is not None:
        if len(case["limits"]) != n or any(not lim_ok(t) for t in case["limits"]):
            return False
    d = case["deltas"]
    if d is None:
        return True
    if d[0] == "s":
        return d[1] == "p"
    return len(d) - 1 == n and all(v == "p" for v in d[1:])


def run_grid(case, models):
    n = case["n_dim"]
    m = models[n]
    limits = None if case["limits"] is None else [lim_value(t) for t in case["limits"]]
    if case.get("limits_container") == "tuple":
        limits = tuple(limits)
    elif case.get("limits_container") == "array":
        limits = np.array(limits)
    d = case["deltas"]
    if d is None:
        deltas = None
    elif d[0] == "s":
        deltas = dval_value(d[1])
    else:
        vals = [dval_value(v) for v in d[1:]]
        deltas = {"l": list, "tuple": tuple, "array": np.array}[d[0]](vals)
    try:
        with warnings.catch_warnings():
            warnings.simplefilter("ignore")
            c = V.HighestDensityContour(m, 0.1, limits=limits, deltas=deltas)
    except Exception as e:  # noqa: BLE001
        msg = str(e)
        out = {"status": "rejected", "kind": kind_of(e), "where": "constructor", "msg": msg[:160]}
        mm = re.search(r"index = (\d+)", msg)
        if mm:
            out["dim"] = int(mm.group(1))
        return out
    return {"status": "accepted", "where": "constructor", "n_coords": int(np.asarray(c.coordinates).shape[0])}


def process_grid(ck, cases, state):
    models = state["eval_models"]
    lines = [grid_line(c) for c in cases]
    answers = ck.driver.run(lines) if lines else []
    for case, ans in zip(cases, answers):
        model = parse_ans(ans)
        wf = wf_grid(case)
        expect_gen(case, wf)
        impl = run_grid(case, models)
        ck.case(case, nontrivial=True, sample=(state["n"] % 197 == 0))
        state["n"] += 1
        ck.count("entry=grid")
        ck.count("grid:" + case["gen"] + ":" + ("wellformed" if wf else "illformed"))
        failed = False
        if (model["status"] == "accepted") != wf:
            ck.diverge("validateGrid-vs-wellformed-predicate", case, f"model {model} wf_grid {wf}")
        if not wf and impl["status"] == "accepted":
            failed = True
            ck.fail({"entry": "HighestDensityContour.__init__", "predicate": "illformed_grid_rejected",
                     "class": case["gen"].split(":")[-1]}, case, {"impl": impl, "model_says": model})
        if wf and impl["status"] != "accepted":
            failed = True
            ck.fail({"entry": "HighestDensityContour.__init__", "predicate": "wellformed_grid_accepted"}, case, impl)
        d = None
        if impl["status"] != model["status"]:
            d = f"impl {impl} model {model}"
        elif impl["status"] == "rejected":
            if model["kind"] != "leaf" and impl["kind"] != model["kind"]:
                d = f"exception class impl {impl['kind']} ({impl.get('msg')}) model {model['kind']} ({model['check']})"
            elif "dim" in impl and model["check"] == "limitTuple" and impl["dim"] != model["pos"]:
                d = f"reported index impl {impl['dim']} model {model['pos']}"
        if d is not None:
            if failed:
                ck.count("divergence_with_oracle_failure")
            else:
                ck.diverge("validateGrid", case, d)


# NaN in the density table of a HighestDensityContour (anchored raise sites contours.py `_compute` and
# `cumsum_biggest_until`); the property's list does not name this input class: correspondence only, no oracle


def density_cases(rng, thorough):
    for n in (1, 2, 3):
        yield {"entry": "density", "gen": "neighbour:finite_density", "site": "contour", "n_dim": n, "nan_at": None}
        for k in range(n):
            yield {"entry": "density", "gen": "nan_density", "site": "contour", "n_dim": n, "nan_at": k}
    for shape in ([4], [3, 3], [2, 3, 2]):
        yield {"entry": "density", "gen": "neighbour:finite_density", "site": "cumsum", "shape": shape, "nan_at": None}
        size = int(np.prod(shape))
        for k in sorted({0, size // 2, size - 1}):
            yield {"entry": "density", "gen": "nan_density", "site": "cumsum", "shape": shape, "nan_at": k}


def run_density(case):
    nan = float("nan")
    try:
        with warnings.catch_warnings():
            warnings.simplefilter("ignore")
            if case["site"] == "contour":
                n = case["n_dim"]
                descs = []
                for k in range(n):
                    bad = case["nan_at"] == k
                    if k % 2 == 0:
                        descs.append({"distribution": V.WeibullDistribution(nan if bad else 1.5, 2.0, 0.0)})
                    else:
                        descs.append({"distribution": V.NormalDistribution(nan if bad else 2.0, 0.8)})
                m = V.GlobalHierarchicalModel(descs)
                c = V.HighestDensityContour(m, 0.1, limits=[(0, 4)] * n, deltas=0.5)
                return {"status": "accepted", "where": "HighestDensityContour", "n_coords": len(c.coordinates)}
            a = np.linspace(0.02, 0.3, int(np.prod(case["shape"])))
            a = a / a.sum()
            if case["nan_at"] is not None:
                a[case["nan_at"]] = nan
            fields, last = V.HighestDensityContour.cumsum_biggest_until(a.reshape(case["shape"]), 0.6)
            return {"status": "accepted", "where": "cumsum_biggest_until", "last": float(last)}
    except Exception as e:  # noqa: BLE001
        return {"status": "rejected", "kind": kind_of(e), "where": case["site"], "msg": str(e)[:120]}


def process_density(ck, cases, state):
    answers = ck.driver.run([["RUN", "c18density", "0" if c["nan_at"] is None else "1"] for c in cases]) if cases else []
    for case, ans in zip(cases, answers):
        model = parse_ans(ans)
        impl = run_density(case)
        ck.case(case, nontrivial=True, sample=(state["n"] % 7 == 0))
        state["n"] += 1
        ck.count("entry=density")
        ck.count("density:" + case["site"] + ":" + ("nan" if case["nan_at"] is not None else "finite") + ":" + impl["status"])
        if impl["status"] != model["status"]:
            ck.diverge("validateDensity", case, f"impl {impl} model {model}")
        elif impl["status"] == "rejected" and impl["kind"] != model["kind"]:
            ck.diverge("validateDensity", case, f"exception class impl {impl['kind']} ({impl.get('msg')}) model {model['kind']}")


# inputs the property's list does not name and the code does not check: only OBSERVED (what the code does is
# counted in the evidence, nothing is demanded of it, nothing is modelled)


def observe_cases(rng, thorough):
    for n in (1, 2, 3):
        for fn in ("pdf", "cdf"):
            for cols in (n - 1, n + 1):
                # the joint cdf is an n-fold quadrature: a surplus column is only tried where that is cheap
                if cols >= 1 and (fn == "pdf" or cols < n or n == 1):
                    yield {"entry": "observe", "gen": "observed:point_columns", "fn": fn, "n_dim": n, "cols": cols}
        for fn in ("marginal_pdf", "marginal_cdf", "marginal_icdf"):
            for dim in range(n):
                if fn == "marginal_cdf" and n == 3 and dim == 1:
                    continue  # nested quadrature over the conditioning variable: minutes
                for bad in ("nan", "inf"):
                    yield {"entry": "observe", "gen": "observed:marginal_non_finite", "fn": fn, "n_dim": n, "dim": dim,
                           "bad": bad}
        for k in range(n):
            for deltas in (0.5, None):
                yield {"entry": "observe", "gen": "observed:hdc_reversed_limit", "n_dim": n, "pos": k, "deltas": deltas}


def _outcome(fn):
    try:
        with warnings.catch_warnings():
            warnings.simplefilter("ignore")
            r = np.asarray(fn(), dtype=float)
        return "returned:" + ("finite" if np.all(np.isfinite(r)) else "non_finite_values"), r
    except Exception as e:  # noqa: BLE001
        return "raised:" + kind_of(e), None


def process_observe(ck, cases, state):
    models = state["eval_models"]
    real_empty_like = np.empty_like
    for case in cases:
        m = models[case["n_dim"]]
        g = case["gen"].split(":")[1]
        if g == "point_columns":
            x = np.full((2 if case["fn"] == "pdf" else 1, case["cols"]), 1.25)
            res = []
            for fill in (0.25, 7.5):
                def filled(a, *args, _v=fill, **kw):
                    out = real_empty_like(a, *args, **kw)
                    out[...] = _v
                    return out
                np.empty_like = filled
                try:
                    o, r = _outcome(lambda: getattr(m, case["fn"])(x))
                finally:
                    np.empty_like = real_empty_like
                res.append((o, r))
            o = res[0][0]
            if res[0][1] is not None and res[1][1] is not None and not np.array_equal(res[0][1], res[1][1], equal_nan=True):
                o += ":value_depends_on_uninitialised_memory"
            key = "%s:%s_columns" % (case["fn"], "too_many" if case["cols"] > case["n_dim"] else "too_few")
        elif g == "marginal_non_finite":
            v = {"nan": float("nan"), "inf": float("inf")}[case["bad"]]
            arg = np.array([v, 0.5]) if case["fn"] == "marginal_icdf" else np.array([v, 1.25])
            kw = {"precision_factor": 0.05} if case["fn"] == "marginal_icdf" else {}
            o, _ = _outcome(lambda: getattr(m, case["fn"])(arg, case["dim"], **kw))
            key = case["fn"] + ":" + case["bad"]
        else:
            lims = [(0, 4)] * case["n_dim"]
            lims[case["pos"]] = (4, 0)
            o, _ = _outcome(lambda: V.HighestDensityContour(m, 0.1, limits=lims, deltas=case["deltas"]).coordinates
                            if case["n_dim"] > 1 else
                            np.concatenate([np.ravel(c) for c in np.atleast_1d(
                                V.HighestDensityContour(m, 0.1, limits=lims, deltas=case["deltas"]).coordinates)]))
            key = "deltas_" + ("given" if case["deltas"] is not None else "default")
        ck.case(case, nontrivial=True, sample=(state["n"] % 13 == 0))
        state["n"] += 1
        ck.count("entry=observe")
        ck.count("observed_only:%s:%s:%s" % (g, key, o))


PT = {"f": 1.25, "nan": float("nan"), "inf": float("inf"), "ninf": float("-inf")}


def point_cases(rng, thorough):
    for n in (1, 2, 3, 4):
        for rows in (1, 2, 3):
            for fn in ("pdf", "cdf", "T.pdf", "T.cdf", "T.empirical_cdf"):
                if fn.startswith("T.") and n != 2:
                    continue
                for form in ("2d", "1d") if rows == 1 else ("2d",):
                    base = [["f"] * n for _ in range(rows)]
                    # finite neighbours: the joint cdf is an n-fold quadrature, only run where cheap
                    if fn in ("pdf", "T.pdf", "T.empirical_cdf") or (fn == "cdf" and n == 1) or \
                            (fn in ("cdf", "T.cdf") and n == 2 and rows == 1 and form == "2d" and thorough):
                        yield {"entry": "points", "gen": "neighbour:finite", "fn": fn, "n_dim": n, "form": form, "pts": base}
                    for r in range(rows):
                        for c in range(n):
                            for bad in ("nan", "inf", "ninf"):
                                pts = [list(x) for x in base]
                                pts[r][c] = bad
                                yield {"entry": "points", "gen": "single:non_finite", "fn": fn, "n_dim": n,
                                       "form": form, "pts": pts}
                    if rows >= 2:
                        pts = [list(x) for x in base]
                        pts[0][0] = "nan"
                        pts[rows - 1][n - 1] = "inf"
                        yield {"entry": "points", "gen": "pair:non_finite+non_finite", "fn": fn, "n_dim": n,
                               "form": form, "pts": pts}


def _ident(x):
    return x


def _jac1(x):
    return np.ones(np.atleast_2d(x).shape[0])


def run_points(case, models, state):
    n = case["n_dim"]
    x = np.array([[PT[t] for t in row] for row in case["pts"]], dtype=float)
    if case["form"] == "1d":
        x = x[0]
    fn = case["fn"]
    if fn.startswith("T."):
        if "tmodel" not in state:
            state["tmodel"] = V.TransformedModel(models[2], _ident, _ident, _jac1, precision_factor=0.2, random_state=1)
            state["tsample"] = models[2].draw_sample(200, random_state=1)
        t = state["tmodel"]
        f = {"T.pdf": t.pdf, "T.cdf": t.cdf,
             "T.empirical_cdf": (lambda y: t.empirical_cdf(y, sample=state["tsample"]))}[fn]
    else:
        f = getattr(models[n], fn)
    try:
        with warnings.catch_warnings():
            warnings.simplefilter("ignore")
            r = f(x)
    except Exception as e:  # noqa: BLE001
        return {"status": "rejected", "kind": kind_of(e), "where": fn, "msg": str(e)[:120]}
    return {"status": "accepted", "where": fn, "finite_result": bool(np.all(np.isfinite(np.asarray(r, dtype=float))))}


def process_points(ck, cases, state):
    models = state["eval_models"]
    lines = []
    for c in cases:
        lines.append(["RUN", "c18points", str(len(c["pts"])), str(c["n_dim"])] + [t for row in c["pts"] for t in row])
    answers = ck.driver.run(lines) if lines else []
    for case, ans in zip(cases, answers):
        model = parse_ans(ans)
        wf = all(t == "f" for row in case["pts"] for t in row)
        impl = run_points(case, models, state)
        ck.case(case, nontrivial=True, sample=(state["n"] % 97 == 0))
        state["n"] += 1
        ck.count("entry=points")
        ck.count("points:" + case["fn"] + ":" + ("wellformed" if wf else "illformed"))
        failed = False
        if (model["status"] == "accepted") != wf:
            ck.diverge("validatePoints-vs-wellformed-predicate", case, f"model {model} wf {wf}")
        entry = ("TransformedModel." + case["fn"][2:]) if case["fn"].startswith("T.") else \
            "GlobalHierarchicalModel." + case["fn"]
        if not wf and impl["status"] == "accepted":
            failed = True
            ck.fail({"entry": entry, "predicate": "non_finite_points_rejected"}, case, {"impl": impl})
        if wf and impl["status"] != "accepted":
            failed = True
            ck.fail({"entry": entry, "predicate": "finite_points_accepted"}, case, impl)
        d = None
        if impl["status"] != model["status"]:
            d = f"impl {impl} model {model}"
        elif impl["status"] == "rejected" and impl["kind"] != model["kind"]:
            d = f"exception class impl {impl['kind']} model {model['kind']}"
        if d is not None and not failed:
            ck.diverge("validatePoints", case, d)


def contour_cases(rng, thorough):
    for cname in ("DirectSamplingContour", "AndContour", "OrContour"):
        for n in (1, 2, 3, 4):
            for smp in ("given", "drawn", "given_2col"):
                yield {"entry": "twod", "gen": ("neighbour:two_dim" if n == 2 else "single:not_two_dim"),
                       "contour": cname, "n_dim": n, "sample": smp}
    for t in ("ghm", "str", "none", "dict", "distribution", "subclass", "contour_class"):
        yield {"entry": "iform", "gen": ("neighbour:ghm" if t == "ghm" else "single:model_type"), "type": t}
    if thorough:
        yield {"entry": "iform", "gen": "neighbour:transformed", "type": "transformed"}


def run_contour(case, models, state):
    if case["entry"] == "twod":
        n = case["n_dim"]
        m = models[n]
        C = getattr(V, case["contour"])
        kw = {}
        if case["sample"] == "given":
            key = ("sample", n)
            if key not in state:
                state[key] = m.draw_sample(4000, random_state=3)
            kw["sample"] = state[key]
        elif case["sample"] == "given_2col":
            # a two-column sample together with a model that is not two-dimensional: still not a 2-D model
            key = ("sample", 2)
            if key not in state:
                state[key] = models[2].draw_sample(4000, random_state=3)
            kw["sample"] = state[key]
        else:
            kw["n"] = 4000
        if case["contour"] != "DirectSamplingContour":
            kw["deg_step"] = 10
        else:
            kw["deg_step"] = 10
        try:
            with warnings.catch_warnings():
                warnings.simplefilter("ignore")
                np.random.seed(5)
                c = C(m, 0.05, **kw)
        except Exception as e:  # noqa: BLE001
            return {"status": "rejected", "kind": kind_of(e), "where": "constructor", "msg": str(e)[:120]}
        return {"status": "accepted", "where": "constructor", "n_coords": len(c.coordinates)}
    t = case["type"]
    if t == "ghm":
        obj = models[2]
    elif t == "transformed":
        obj = V.TransformedModel(models[2], _ident, _ident, _jac1, precision_factor=0.05, random_state=1)
    elif t == "str":
        obj = "GlobalHierarchicalModel"
    elif t == "none":
        obj = None
    elif t == "dict":
        obj = {"distribution": V.WeibullDistribution()}
    elif t == "distribution":
        obj = V.WeibullDistribution(1, 2, 0)
    elif t == "subclass":
        class MyModel(V.GlobalHierarchicalModel):
            pass
        obj = MyModel([{"distribution": V.WeibullDistribution(1, 2, 0)}, {"distribution": V.WeibullDistribution(1, 2, 0)}])
    else:
        obj = V.GlobalHierarchicalModel
    try:
        with warnings.catch_warnings():
            warnings.simplefilter("ignore")
            c = V.IFORMContour(obj, 0.1, n_points=8)
    except Exception as e:  # noqa: BLE001
        return {"status": "rejected", "kind": kind_of(e), "where": "constructor", "msg": str(e)[:120]}
    return {"status": "accepted", "where": "constructor", "n_coords": len(c.coordinates)}


def process_contours(ck, cases, state):
    models = state["eval_models"]
    lines = []
    for c in cases:
        if c["entry"] == "twod":
            lines.append(["RUN", "c18twod", str(c["n_dim"])])
        else:
            lines.append(["RUN", "c18iform", c["type"] if c["type"] in ("ghm", "transformed") else "other"])
    answers = ck.driver.run(lines) if lines else []
    for case, ans in zip(cases, answers):
        model = parse_ans(ans)
        wf = (case["n_dim"] == 2) if case["entry"] == "twod" else case["type"] in ("ghm", "transformed")
        impl = run_contour(case, models, state)
        ck.case(case, nontrivial=True, sample=(state["n"] % 11 == 0))
        state["n"] += 1
        ck.count("entry=" + case["entry"])
        failed = False
        entry = (case["contour"] if case["entry"] == "twod" else "IFORMContour") + ".__init__"
        if (model["status"] == "accepted") != wf:
            ck.diverge("validateContour-vs-wellformed-predicate", case, f"model {model} wf {wf}")
        if not wf and impl["status"] == "accepted":
            failed = True
            ck.fail({"entry": entry, "predicate": "unsupported_model_rejected"}, case, impl)
        if wf and impl["status"] != "accepted":
            failed = True
            ck.fail({"entry": entry, "predicate": "supported_model_accepted"}, case, impl)
        d = None
        if impl["status"] != model["status"]:
            d = f"impl {impl} model {model}"
        elif impl["status"] == "rejected" and impl["kind"] != model["kind"]:
            d = f"exception class impl {impl['kind']} ({impl.get('msg')}) model {model['kind']}"
        if d is not None and not failed:
            ck.diverge("validateContour", case, d)


# --------------------------------------------------------------------------------------------


def corpus_cases():
    """corpus/C18/*.json: witnesses of DESIGN section 4 #8 (conditional_on = own / later / non-existent
    dimension) and of the non-callable PointsPerIntervalSlicer reference"""
    import glob
    import json
    import os

    d = os.path.join(os.path.dirname(os.path.dirname(os.path.abspath(__file__))), "corpus", "C18")
    for fn in sorted(glob.glob(os.path.join(d, "*.json"))):
        yield json.load(open(fn))["case"]


PROCESS = {"model": process_model, "fit": process_fit, "slicer": process_slicer, "grid": process_grid,
           "points": process_points, "twod": process_contours, "iform": process_contours,
           "density": process_density, "observe": process_observe}


def new_state():
    with warnings.catch_warnings():
        warnings.simplefilter("ignore")
        models = {n: eval_model(n) for n in (1, 2, 3, 4)}
    return {"n": 0, "shown": set(), "fit_cache": {}, "eval_models": models}


def run_batch(ck, cases, state, size=4000):
    by = {}
    for c in cases:
        by.setdefault(c["entry"] if c["entry"] not in ("twod", "iform") else "twod", []).append(c)
    for entry, cs in by.items():
        for k in range(0, len(cs), size):
            PROCESS[entry](ck, cs[k:k + size], state)


def main(ck):
    rng = np.random.default_rng(ck.seed)
    thorough = ck.tier == "thorough"
    ck.rule = (
        "malformed stream: every malformation class of the property (model description 11 classes with variants, "
        "fit 8 incl. data that is not a table, slicer 4 incl. misplaced named options, HDC limits/deltas 5 incl. limit "
        "entries, non-finite points, non-2-D model, IFORM model type) injected at every "
        "position of every hierarchy of 1-4 dimensions with each of the 9 families (6 shipped + LogNormalNormFit + two "
        "ScipyDistribution subclasses: gamma by scipy_dist_name, shape-less Gumbel by scipy_dist) as carrier of model "
        "descriptions and fit specifications (grid / point / contour checks: one fixed model per dimension count), singly; pairs "
        + ("exhaustively for model descriptions" if thorough else "as a random sample")
        + "; every well-formed neighbour (the case with the malformation removed, plus accepted variations) is run "
        "too. A case is non-trivial if it is ill-formed or has >= 2 dimensions; distinct by SHA1 of the abstract case."
    )
    ck.assumptions = [
        "the abstract case is translated to real objects and to model tokens by the harness (build_desc / desc_line etc.)",
        "the number of intervals a slicer keeps is computed by the harness (n_kept) and handed to the model",
        "exception classes outside the enum and numpy-internal failures (zero/negative/NaN deltas) are compared as 'rejected' only",
        "joint cdf of finite points is only evaluated for n_dim = 1 (and 2 in the thorough tier): n-fold quadrature",
        "rejections inside numpy caused by NaN / infinite HDC limit entries are compared as 'rejected' only",
        "data shapes: the harness states the shape of np.array(data) it built (checked against the array) to the model",
    ]
    state = new_state()
    global POOL
    if thorough:
        import multiprocessing

        POOL = multiprocessing.get_context("fork").Pool(8)
    try:
        _explore(ck, rng, thorough, state)
    finally:
        if POOL is not None:
            POOL.close()
            POOL = None
    ck.extra["exhaustive"] = False
    ck.extra["explanation"] = (
        "enumerated completely: single malformations of model descriptions (class x position x hierarchy with n_dim <= 4 "
        "x family), HDC grid / slicer / point / contour classes; pairs of model-description malformations: "
        + ("enumerated completely" if thorough else "random sample")
        + "; fit specifications: every class x position x family on " + ("all" if thorough else "a subset of the")
        + " hierarchies, pairs sampled"
    )
    ck.partial = {
        "numerical fits, densities and contours behind the checks": "not modelled; the model ends where validation ends "
        "(well-formed neighbours are only observed to be accepted)",
        "inputs outside the property's list (evidence keys observed_only:*)": "evaluation points with the wrong number of "
        "columns, NaN / inf in marginal_pdf / marginal_cdf / marginal_icdf, fit data with >= 3 axes whose last axis has "
        "n_dim entries, HDC limit tuples written (max, min): what the code does is recorded per run, nothing is demanded",
        "NaN in the HDC density table": "correspondence with the model only (ValueError at both raise sites), no oracle",
    }


def _explore(ck, rng, thorough, state):
    run_batch(ck, list(corpus_cases()), state)
    run_batch(ck, list(model_cases(rng, thorough)), state)
    if thorough:
        batch = []
        for c in pair_cases(rng, None):
            batch.append(c)
            if len(batch) >= 20000:
                run_batch(ck, batch, state)
                batch = []
        run_batch(ck, batch, state)
    else:
        run_batch(ck, list(pair_cases(rng, 5000)), state)
    run_batch(ck, list(slicer_cases(rng, thorough)), state)
    run_batch(ck, list(grid_cases(rng, thorough)), state)
    run_batch(ck, list(point_cases(rng, thorough)), state)
    run_batch(ck, list(contour_cases(rng, thorough)), state)
    run_batch(ck, list(density_cases(rng, thorough)), state)
    run_batch(ck, list(observe_cases(rng, thorough)), state)
    fc = list(fit_cases(rng, thorough))
    run_batch(ck, fc, state)
    run_batch(ck, list(fit_pair_cases(rng, 6000 if thorough else 600)), state)


def replay(ck, payload):
    case = payload["case"]
    state = new_state()
    entry = case["entry"]
    before = len(ck.failures), len(ck.divergences)
    PROCESS[entry](ck, [case], state)
    for sig, c, detail in ck.failures[before[0]:]:
        print("oracle:", sig, detail)
    for op, c, detail in ck.divergences[before[1]:]:
        print("correspondence:", op, detail)
    return len(ck.failures) == before[0] and not ck.known_seen
