"""
C16 - Transformed models are exact push-forwards; Monte-Carlo conditionals match them.

Correspondence (every run, against VERIF_REPO)
  (A) the six closed forms of variable_transform.py, the predefined `_transform/_inv_transform/
      _jacobian` of both EW models: Python vs the Lean Float model on a 40x40 log-grid over
      (1e-3, 1e2)^2 (bit-exact or rtol 1e-12; `x**3` via TABLE pow3), round trips, the module
      constant `factor`, the Jacobian vs central differences of the REAL `_transform`.
  (B) the real `TransformedModel` over an exact-arithmetic stub base model (recording double):
      pdf / draw_sample / empirical_cdf bit-exact vs the Lean composition model (n_dim 2 and 3;
      stub triple and the shipped triple).
  (D) the real `conditional_sample` replayed: the harness re-creates default_rng(seed), performs the
      same uniform() calls in the same order and sizes, and hands the draws (and, for shipped
      families, the joint-pdf values as TABLE leaves) to the Lean model of the sampler; x_max,
      f_max (via the sample), accepted sample, warnings, CouldNotSampleError are compared.
Oracle / PARTIAL clauses, observed per run (distribution-free bounds at error probability 1e-12):
  (E) quadrature of the transformed pdf ~ 1; `cdf` (nquad) and `empirical_cdf` vs an exact
      reference; `draw_sample` vs the exact marginal / conditional cdf; `conditional_sample`,
      `conditional_cdf`, `conditional_icdf` vs the exact conditional of Tz given Hs
      (1 - G_S|hs(F hs/t^2), Lean: C16.tz_conditional_cdf_deriv) for conditioning quantiles
      0.5 ... 1-1e-6; IFORM of the transformed model vs the exactly transformed base contour;
      exact repeatability with random_state set.
"""
import math
import warnings

import numpy as np
import scipy.stats as sts

from core import f2b, b2f, fl

DELTA = 1e-12
CONSTS = dict(x_min=1e-16, hi=100.0, lo=0.05, thr=1e-7, mult=0.7, slack=1.001, grid_n=1000)


def dkw_eps(n, delta=DELTA):
    return math.sqrt(math.log(2.0 / delta) / (2.0 * n))


def ks_uniform(u):
    u = np.sort(np.asarray(u, dtype=float))
    n = len(u)
    i = np.arange(1, n + 1)
    return float(max(np.max(i / n - u), np.max(u - (i - 1) / n)))


def quantile_band(n, p, delta=DELTA):
    """distribution-free band for F(x_hat) where x_hat = np.quantile(sample of n, p) (type 7):
    x_hat lies between the order statistics j and j+1, j = floor((n-1)p)+1, and F(X_(j)) ~ Beta(j, n-j+1)."""
    j = int(math.floor((n - 1) * p)) + 1
    lo = float(sts.beta.ppf(delta / 2, j, n - j + 1))
    hi = float(sts.beta.ppf(1 - delta / 2, min(j + 1, n), n - min(j + 1, n) + 1))
    return lo, hi


def V():
    import virocon
    from virocon import variable_transform
    from virocon import jointmodels, predefined

    return virocon, variable_transform, jointmodels, predefined


def bits_equal(a, b):
    a = np.ascontiguousarray(a, dtype=np.float64)
    b = np.ascontiguousarray(b, dtype=np.float64)
    return a.shape == b.shape and np.array_equal(a.view(np.uint64), b.view(np.uint64))


def parse_lists(ans, k):
    """'OK n v.. n v..' -> k float arrays"""
    t = ans.split()
    if t[0] != "OK":
        return None
    out, pos = [], 1
    for _ in range(k):
        n = int(t[pos])
        out.append(np.array([b2f(v) for v in t[pos + 1:pos + 1 + n]]))
        pos += 1 + n
    return out


# =========================================================================== (A) transforms

def predef_triples():
    _, _, _, predefined = V()
    return {"windmeier": predefined.get_Windmeier_EW_Hs_S()[3], "nonzero": predefined.get_Nonzero_EW_Hs_S()[3]}


def log_grid(m):
    g = np.logspace(-3, 2, m + 2)[1:-1]  # open interval (1e-3, 1e2)
    A, B = np.meshgrid(g, g, indexing="ij")
    return A.ravel(), B.ravel()


def central_det(transform, x, rel=1e-6):
    """|det| of the Jacobian matrix of a row-wise map R^2 -> R^2 by central differences"""
    x = np.asarray(x, dtype=float)
    cols = []
    for j in range(2):
        h = rel * x[:, j]
        xp, xm = x.copy(), x.copy()
        xp[:, j] += h
        xm[:, j] -= h
        cols.append((transform(xp) - transform(xm)) / (xp[:, j] - xm[:, j])[:, None])
    # cols[j][:, i] = d T_i / d x_j
    return np.abs(cols[0][:, 0] * cols[1][:, 1] - cols[1][:, 0] * cols[0][:, 1])


def process_transforms(ck, m):
    _, vt, _, _ = V()
    F = float(vt.factor)
    a, b = log_grid(m)
    case0 = {"part": "A", "grid": m, "factor_bits": f2b(F)}
    ck.case(case0, nontrivial=True)
    ck.count("part=A")
    ck.count("A_grid_points", len(a))
    # the constant: s = 2 pi hs / (g tz^2), g = 9.81
    if f2b(F) != f2b(2 * np.pi / 9.81) or f2b(float(vt.factor_sqrt)) != f2b(math.sqrt(F)):
        ck.fail({"entry": "variable_transform.factor", "predicate": "factor_is_2pi_over_g"}, case0,
                f"factor={F!r} factor_sqrt={float(vt.factor_sqrt)!r}")
    pairs = [("hs_tz_to_s_d", "s_d_to_hs_tz"), ("hs_tz_to_hs_s", "hs_s_to_hs_tz"), ("hs_tz_to_s_tz", "s_tz_to_hs_tz")]
    lines, names = [], []
    outs = {}
    with np.errstate(all="ignore"):
        for fwd, inv in pairs:
            for name in (fwd, inv):
                outs[name] = tuple(np.asarray(v, dtype=float) for v in getattr(vt, name)(a.copy(), b.copy()))
                lines.append(" ".join(["RUN", "tf", name, str(f2b(F))] + fl(a) + fl(b)))
                names.append(name)
    triples = predef_triples()
    x = np.c_[a, b]
    for tname, tr in triples.items():
        with np.errstate(all="ignore"):
            outs["predef_transform/" + tname] = tuple(np.asarray(tr["transform"](x.copy()), dtype=float).T)
            outs["predef_inverse/" + tname] = tuple(np.asarray(tr["inverse"](x.copy()), dtype=float).T)
            outs["jac/" + tname] = (np.asarray(tr["jacobian"](x.copy()), dtype=float),)
    lines.append(" ".join(["RUN", "tf", "predef_transform", str(f2b(F))] + fl(a) + fl(b)))
    lines.append(" ".join(["RUN", "tf", "predef_inverse", str(f2b(F))] + fl(a) + fl(b)))
    pow3 = np.power(b, 3)
    tab = [f"TABLE pow3 {f2b(v)} {f2b(w)}" for v, w in zip(b, pow3)]
    lines_j = ["CLEAR"] + tab + [" ".join(["RUN", "jac", "table", str(f2b(F))] + fl(a) + fl(b)), "CLEAR"]
    ans = ck.driver.run(lines + lines_j)
    model = {}
    for name, l in zip(names, ans[:len(names)]):
        model[name] = parse_lists(l, 2)
    model["predef_transform"] = parse_lists(ans[len(names)], 2)
    model["predef_inverse"] = parse_lists(ans[len(names) + 1], 2)
    model["jac"] = parse_lists(ans[len(names) + 2], 1)

    def cmp(name, impl, mod, case):
        if mod is None:
            ck.diverge("transform:" + name, case, "model error")
            return
        for k, (u, v) in enumerate(zip(impl, mod)):
            if bits_equal(u, v):
                ck.count("A_bit_exact")
                continue
            with np.errstate(all="ignore"):
                rel = np.abs(u - v) / np.maximum(np.abs(v), 1e-300)
            rel = np.where(np.isfinite(rel), rel, np.inf)
            i = int(np.argmax(rel))
            if rel[i] > 1e-12:
                ck.diverge("transform:" + name, dict(case, a_bits=f2b(a[i]), b_bits=f2b(b[i]), a=float(a[i]), b=float(b[i])),
                           f"{name} output {k} at ({a[i]!r}, {b[i]!r}): impl {u[i]!r} model {v[i]!r} rel {rel[i]:.3e}")
            else:
                ck.count("A_within_rtol_1e-12")

    for name in names:
        cmp(name, outs[name], model[name], case0)
    for tname in triples:
        cmp("predef_transform/" + tname, outs["predef_transform/" + tname], model["predef_transform"], case0)
        cmp("predef_inverse/" + tname, outs["predef_inverse/" + tname], model["predef_inverse"], case0)
        cmp("jac/" + tname, outs["jac/" + tname], model["jac"], case0)

    # ---- the same closed forms on integer-valued points passed with an integer dtype and as Python scalars (ints and
    #      floats): equal to the float-array path, and the round trip returns the point
    ia, ib = np.meshgrid(np.arange(1, 13), np.arange(1, 13), indexing="ij")
    ia, ib = ia.ravel(), ib.ravel()
    with np.errstate(all="ignore"):
        for fwd, inv in pairs:
            ref = tuple(np.asarray(v, dtype=float) for v in getattr(vt, fwd)(ia.astype(float), ib.astype(float)))
            for how in ("int64 ndarray", "python int scalars", "python float scalars"):
                ck.count("A_input=" + how)
                try:
                    if how == "int64 ndarray":
                        got = tuple(np.asarray(v, dtype=float) for v in getattr(vt, fwd)(ia.astype(np.int64), ib.astype(np.int64)))
                    else:
                        conv = int if how == "python int scalars" else float
                        vals = [getattr(vt, fwd)(conv(u), conv(v)) for u, v in zip(ia, ib)]
                        got = (np.array([float(q[0]) for q in vals]), np.array([float(q[1]) for q in vals]))
                    back = getattr(vt, inv)(got[0], got[1])
                    err = max(float(np.max(np.abs(np.asarray(back[0]) - ia) / ia)), float(np.max(np.abs(np.asarray(back[1]) - ib) / ib)))
                    msg = None if err <= 1e-9 else f"round trip error {err:.3e}"
                    same = bits_equal(got[0], ref[0]) and bits_equal(got[1], ref[1])
                except Exception as e:  # noqa: BLE001
                    msg, same = f"{type(e).__name__}: {e}", True
                if msg:
                    ck.fail({"entry": "variable_transform." + fwd, "predicate": "inverse_of_transform_is_identity",
                             "input_class": how}, dict(case0, input=how), f"{fwd} on the integer points 1..12 x 1..12 passed as {how}: {msg}")
                elif not same:
                    ck.diverge("transform:" + fwd, dict(case0, input=how), f"{fwd}: result for {how} differs from the float-array result")
    # ---- oracle on the real code: round trips (condition-aware), Jacobian = |det dT/dx|
    def rt_fail(name, i, got, want, tol):
        ck.fail({"entry": "variable_transform." + name, "predicate": "inverse_of_transform_is_identity"},
                dict(case0, a=float(a[i]), b=float(b[i]), a_bits=f2b(a[i]), b_bits=f2b(b[i])),
                f"{name}: round trip of ({a[i]!r}, {b[i]!r}) gives {got!r} (expected {want!r}, tolerance {tol:.2e})")

    with np.errstate(all="ignore"):
        for fwd, inv in pairs:
            for first, second in ((fwd, inv), (inv, fwd)):
                y = getattr(vt, first)(a.copy(), b.copy())
                z = getattr(vt, second)(np.asarray(y[0]), np.asarray(y[1]))
                # conditioning: s_d_to_hs_tz subtracts factor from sqrt(16 d^2 s^2 + factor^2)
                kappa = np.ones_like(a)
                if "s_d" in first:
                    s_, d_ = (y[0], y[1]) if first == fwd else (a, b)
                    r = np.sqrt(16 * d_ ** 2 * s_ ** 2 + F ** 2)
                    kappa = r / np.maximum(r - F, 1e-300)
                tol = 1e-13 * (8 + 8 * kappa)
                for got, want in ((np.asarray(z[0]), a), (np.asarray(z[1]), b)):
                    err = np.abs(got - want) / want
                    bad = ~(err <= tol)
                    ck.hyp_checked += len(a)
                    if bad.any():
                        i = int(np.argmax(np.where(bad, err / tol, 0)))
                        rt_fail(first + "->" + second, i, float(got[i]), float(want[i]), float(tol[i]))
        for tname, tr in triples.items():
            z = np.asarray(tr["inverse"](np.asarray(tr["transform"](x.copy()))))
            err = np.max(np.abs(z - x) / x, axis=1)
            ck.hyp_checked += len(a)
            if not (err <= 1e-12).all():
                i = int(np.argmax(err))
                ck.fail({"entry": f"predefined.{tname}._inv_transform", "predicate": "inverse_of_transform_is_identity"},
                        dict(case0, a=float(a[i]), b=float(b[i])), f"round trip of {x[i].tolist()} gives {z[i].tolist()}")
            z = np.asarray(tr["transform"](np.asarray(tr["inverse"](x.copy()))))
            err = np.max(np.abs(z - x) / x, axis=1)
            if not (err <= 1e-12).all():
                i = int(np.argmax(err))
                ck.fail({"entry": f"predefined.{tname}._transform", "predicate": "transform_of_inverse_is_identity"},
                        dict(case0, a=float(a[i]), b=float(b[i])), f"round trip of {x[i].tolist()} gives {z[i].tolist()}")
            # the Jacobian the code needs: TransformedModel.pdf(x) = model.pdf(transform(x)) * jacobian(x)
            det = central_det(lambda q: np.asarray(tr["transform"](q)), x)
            jac = np.asarray(tr["jacobian"](x.copy()), dtype=float)
            err = np.abs(jac - det) / det
            ck.hyp_checked += len(a)
            if not (err <= 1e-6).all():
                i = int(np.argmax(np.where(np.isfinite(err), err, np.inf)))
                ck.fail({"entry": f"predefined.{tname}._jacobian", "predicate": "jacobian_is_abs_det_of_transform"},
                        dict(case0, a=float(a[i]), b=float(b[i]), a_bits=f2b(a[i]), b_bits=f2b(b[i])),
                        f"_jacobian({x[i].tolist()}) = {jac[i]!r}, |det d _transform/dx| by central differences = {det[i]!r}")


# =========================================================================== (B) stub base model

class StubBase:
    """exact-arithmetic base model (mirrors lean/VirVerif/Model/TStub.lean `StubBase.pdf`); records calls"""

    def __init__(self, n_dim, s1, c0, c1, e0, e1):
        self.n_dim = n_dim
        self.p = (s1, c0, c1, e0, e1)
        self.drawn = []
        self.pdf_args = []

    @staticmethod
    def _rat(s, z):
        with np.errstate(divide="ignore", invalid="ignore"):
            return np.where(z > 0, s / ((z + s) * (z + s)), 0.0)

    def pdf(self, x):
        x = np.asarray(x, dtype=float)
        self.pdf_args.append(x.copy())
        s1, c0, c1, e0, e1 = self.p
        a, b = x[:, 0], x[:, 1]
        f = self._rat(s1, a) * self._rat(c0 + c1 * a, b)
        if self.n_dim == 3:
            f = f * self._rat(e0 + e1 * b, x[:, 2])
        return f

    def draw_sample(self, n, *, random_state=None):
        rng = np.random.default_rng(random_state)
        s1, c0, c1, e0, e1 = self.p
        u = rng.uniform(size=(self.n_dim, n))
        a = s1 * u[0] / (1 - u[0])
        sb = c0 + c1 * a
        b = sb * u[1] / (1 - u[1])
        cols = [a, b]
        if self.n_dim == 3:
            sc = e0 + e1 * b
            cols.append(sc * u[2] / (1 - u[2]))
        out = np.stack(cols, axis=1)
        self.drawn.append((n, random_state, out.copy()))
        return out

    def fit(self, data, *args, **kwargs):
        self.fit_calls = getattr(self, "fit_calls", []) + [(np.array(data, dtype=float), args, kwargs)]
        return "fitted"

    def tokens(self):
        return [str(f2b(v)) for v in self.p]


def stub_triple(n_dim, k):
    """row-wise maps written with IEEE-basic operations in the order of Model/TStub.lean"""
    ks = np.sqrt(k)

    def transform(x):
        x = np.asarray(x, dtype=float)
        cols = [x[:, 0], k * x[:, 0] / (x[:, 1] * x[:, 1])]
        if n_dim == 3:
            cols.append(x[:, 2] / (1 + x[:, 0]))
        return np.stack(cols, axis=1)

    def inverse(y):
        y = np.asarray(y, dtype=float)
        cols = [y[:, 0], ks * np.sqrt(y[:, 0] / y[:, 1])]
        if n_dim == 3:
            cols.append(y[:, 2] * (1 + y[:, 0]))
        return np.stack(cols, axis=1)

    def jacobian(x):
        x = np.asarray(x, dtype=float)
        j = 2 * k * x[:, 0] / (x[:, 1] * x[:, 1] * x[:, 1])
        if n_dim == 3:
            j = j / (1 + x[:, 0])
        return j

    return transform, inverse, jacobian


def make_stub_case(rng, n_dim=None, triple=None):
    u = rng.uniform
    n_dim = int(rng.choice([2, 3])) if n_dim is None else n_dim
    triple = str(rng.choice(["stub", "shipped"] if n_dim == 2 else ["stub"])) if triple is None else triple
    return {"part": "B", "n_dim": n_dim, "triple": triple,
            "k": float(10 ** u(-0.7, 0.5)), "base": [float(10 ** u(-0.3, 0.7)), float(10 ** u(-2, -0.7)), float(10 ** u(-2.5, -1.5)),
                                                    float(u(0.5, 3)), float(u(0.1, 2))],
            "n_pts": int(rng.choice([1, 7, 60])), "n": int(rng.choice([1, 2, 50, 400])), "seed": int(rng.integers(0, 2 ** 31))}


def build_stub(case):
    _, vt, jm, _ = V()
    base = StubBase(case["n_dim"], *case["base"])
    if case["triple"] == "shipped":
        k = float(vt.factor)
        tr = predef_triples()["windmeier"]
        T, I, J = tr["transform"], tr["inverse"], tr["jacobian"]
        cube = "table"
    else:
        k = case["k"]
        T, I, J = stub_triple(case["n_dim"], k)
        cube = "mul"
    t = jm.TransformedModel(base, T, I, J, precision_factor=0.1, random_state=case.get("rs", None))
    return base, t, k, cube, (T, I, J)


def process_stub(ck, case):
    base, t, k, cube, (T, I, J) = build_stub(case)
    rng = np.random.default_rng(case["seed"])
    d = case["n_dim"]
    pts = 10 ** rng.uniform(-1.5, 1.5, size=(case["n_pts"], d))
    ck.case(case, nontrivial=case["n_pts"] >= 2 and case["n"] >= 2)
    ck.count("part=B")
    ck.count(f"B_triple={case['triple']}_ndim={d}")
    bad = []
    with np.errstate(all="ignore"):
        pdf = np.asarray(t.pdf(pts.copy()), dtype=float)
    # oracle: push-forward density = base density at transform(x) times |det d transform / dx|
    ref_base = StubBase(d, *case["base"])
    Tx = np.asarray(T(pts.copy()))
    if d == 2:
        det = central_det(lambda q: np.asarray(T(q)), pts)
    else:
        det = central_det(lambda q: np.asarray(T(np.c_[q, np.ones(len(q))]))[:, :2], pts[:, :2]) / (1 + pts[:, 0])
    want = ref_base.pdf(Tx) * det
    if pdf.shape != (case["n_pts"],) or not np.allclose(pdf, want, rtol=1e-5, atol=0):
        bad.append(("pdf_is_pushforward_of_base_density", f"pdf {pdf[:3].tolist()} expected {want[:3].tolist()}"))
    if len(base.pdf_args) != 1 or not np.allclose(base.pdf_args[0], Tx, rtol=1e-12):
        bad.append(("base_pdf_evaluated_at_transform_of_x", f"base.pdf called with {base.pdf_args[0][:2].tolist() if base.pdf_args else None}"))
    # draw_sample = inverse(base sample)
    n = case["n"]
    np.random.seed(case["seed"] % 2 ** 32)
    smp = np.asarray(t.draw_sample(n), dtype=float)
    base_smp = base.drawn[-1][2] if base.drawn else None
    if base_smp is None or base.drawn[-1][0] != n or smp.shape != (n, d):
        bad.append(("sample_is_inverse_of_base_sample", f"shape {smp.shape}, base draws {[(q[0]) for q in base.drawn]}"))
    else:
        back = np.asarray(T(smp.copy()))
        if not np.allclose(back, base_smp, rtol=1e-9):
            bad.append(("sample_is_inverse_of_base_sample", "transform(sample) is not the base model's sample"))
    # empirical cdf with an explicit sample
    ev = pts[: min(5, len(pts))] * 2.0
    if smp.shape == (n, d):
        ev = np.vstack([ev, smp[:1], np.max(smp, axis=0)[None, :]])  # events tied with sample rows: the cdf counts `<=`
    ecdf = np.asarray(t.empirical_cdf(ev.copy(), sample=smp.copy()), dtype=float)
    want_e = np.array([np.mean(np.all(smp <= e, axis=1)) for e in ev])
    if ecdf.shape != want_e.shape or not np.array_equal(ecdf, want_e):
        bad.append(("empirical_cdf_is_fraction_of_rows_below", f"{ecdf.tolist()} expected {want_e.tolist()}"))
    for pred, detail in bad:
        ck.fail({"entry": "TransformedModel", "predicate": pred}, case, detail)
    # fit: the data are in the transformed model's space; the base model is fitted to transform(data), further
    # arguments are handed on (model = the one-line composition; no clause of the property speaks about fit)
    try:
        ret = t.fit(pts.copy(), "fit-description", flag=7)
        fc = getattr(base, "fit_calls", [])
        if not (len(fc) == 1 and bits_equal(fc[0][0], Tx) and fc[0][1] == ("fit-description",) and fc[0][2] == {"flag": 7}
                and ret == "fitted"):
            if not bad:
                ck.diverge("tmodel-fit", case, f"TransformedModel.fit(data, 'fit-description', flag=7): base.fit calls "
                           f"{[(c[0][:2].tolist(), c[1], c[2]) for c in fc]}, model: one call with transform(data) = {Tx[:2].tolist()}")
    except Exception as e:  # noqa: BLE001
        if not bad:
            ck.diverge("tmodel-fit", case, f"TransformedModel.fit raised {type(e).__name__}: {e}")
    # ---- Lean
    lines = ["CLEAR"]
    if cube == "table":
        lines += [f"TABLE pow3 {f2b(v)} {f2b(w)}" for v, w in zip(pts[:, 1], np.power(pts[:, 1], 3))]
    lines.append(" ".join(["RUN", "tpdf", str(d), cube, str(f2b(k))] + base.tokens() + fl(pts.ravel())))
    if base_smp is not None:
        lines.append(" ".join(["RUN", "tsample", str(d), str(f2b(k))] + fl(base_smp.ravel())))
    else:
        lines.append("RUN tsample 2 0 0")
    lines.append(" ".join(["RUN", "ecdf", str(d)] + fl(smp.ravel()) + fl(ev.ravel())))
    ans = ck.driver.run(lines)
    if bad:
        ck.count("divergence_with_oracle_failure")
        return
    m = parse_lists(ans[0], 1)
    if m is None or not bits_equal(m[0], pdf):
        i = 0 if m is None else int(np.argmax(m[0] != pdf)) if m[0].shape == pdf.shape else 0
        ck.diverge("tmodel-pdf", case, f"point {pts[i].tolist()}: impl {pdf[i]!r} model {None if m is None else m[0][i]!r}")
    m = parse_lists(ans[1], 1)
    if m is None or not bits_equal(m[0].reshape(-1, d), smp):
        ck.diverge("tmodel-draw-sample", case, "inverse(base sample) differs from the model")
    t3 = ans[2].split()
    cnt = np.array([int(v) for v in t3[2:]]) if t3[0] == "OK" else None
    if cnt is None or not np.array_equal(cnt / n, ecdf):
        ck.diverge("tmodel-empirical-cdf", case, f"impl {ecdf.tolist()} model counts {None if cnt is None else cnt.tolist()} / {n}")


def process_stub_cached_sample(ck, rng):
    """`sample` property: drawn once (1e6 rows), cached, used by empirical_cdf"""
    case = make_stub_case(rng, n_dim=2, triple="stub")
    case["gen"] = "cached-sample"
    base, t, k, cube, (T, I, J) = build_stub(case)
    ck.case(case, nontrivial=True, sample=False)
    ck.count("B_cached_sample")
    e = np.array([[1.0, 5.0], [3.0, 9.0]])
    p1 = np.asarray(t.empirical_cdf(e))
    p2 = np.asarray(t.empirical_cdf(e))
    ok = len(base.drawn) == 1 and base.drawn[0][0] == 1000000 and np.array_equal(p1, p2)
    if ok:
        smp = np.asarray(I(base.drawn[0][2]))
        want = np.array([np.mean(np.all(smp <= q, axis=1)) for q in e])
        ok = np.array_equal(p1, want)
    if not ok:
        ck.fail({"entry": "TransformedModel.empirical_cdf", "predicate": "uses_cached_sample_of_1e6"}, case,
                f"base draws {[q[0] for q in base.drawn]}, values {p1.tolist()} / {p2.tolist()}")


def process_stub_iform(ck, rng, rs=None, given_case=None):
    """IFORM over the stub model: every Monte-Carlo step must be driven by the model's random_state
    (the recording base model sees the random_state of each draw), and two runs must agree bit for bit."""
    virocon, _, _, _ = V()
    if given_case is not None:
        case = dict(given_case)
    else:
        case = make_stub_case(rng, n_dim=2, triple="stub")
        drawn_rs = int(rng.integers(0, 2 ** 31))
        case.update(gen="stub-iform", rs=drawn_rs if rs is None else rs, alpha=float(rng.choice([0.05, 0.01])), n_points=int(rng.choice([4, 6])))
    ck.count("B_stub_iform_random_state=" + ("0" if case["rs"] == 0 else "int"))
    base, t, k, cube, _ = build_stub(case)
    ck.case(case, nontrivial=True, sample=False)
    ck.count("B_stub_iform")
    seen = []
    orig = t.conditional_sample

    def rec(n, dim, given, *, random_state=None, **kw):
        seen.append(random_state)
        return orig(n, dim, given, random_state=random_state, **kw)

    t.conditional_sample = rec

    def contour():
        with np.errstate(all="ignore"), warnings.catch_warnings():
            warnings.simplefilter("ignore")
            return np.asarray(virocon.IFORMContour(t, case["alpha"], n_points=case["n_points"]).coordinates, dtype=float)

    if probe_sampler(t, 1, 1.0):
        ck.count("B_stub_iform_skipped_sampler_dead")
        t.conditional_sample = orig
        return
    seen.clear()
    c1, c2 = contour(), contour()
    seeds_marg = [q[1] for q in base.drawn]
    sig = {"entry": "IFORMContour(TransformedModel)", "predicate": "same_random_state_reproduces"}
    if not np.array_equal(c1, c2):
        ck.fail(sig, case, f"two IFORM contours of the same stub TransformedModel(random_state={case['rs']}) differ by "
                           f"{np.abs(c1 - c2).max(axis=0).tolist()}; random_state seen by base.draw_sample: {seeds_marg}")
    elif any(q != case["rs"] for q in seeds_marg) or any(q != case["rs"] for q in seen) or len(seeds_marg) != 2 \
            or len(seen) != 2 * case["n_points"]:
        ck.diverge("iform-stream-selection", case, f"random_state {case['rs']}: base.draw_sample saw {seeds_marg}, "
                                                   f"conditional_sample saw {seen[:4]}... ({len(seen)} calls); model: all equal to the seed")


# =========================================================================== (F) Monte-Carlo sample sizes, stubbed samplers

def _fake_sample(n_dim, m=64):
    """a tiny 'sample' whose column j announces itself (1000 (j+1) + 0..m-1): which column a quantile was taken
    from is visible in the result"""
    return np.stack([1000.0 * (j + 1) + np.arange(m, dtype=float) for j in range(n_dim)], axis=1)


def _fake_cond(given):
    """a tiny conditional 'sample' that depends on the conditioning values it was asked for"""
    return np.linspace(1.0, 2.0, 50) + 10.0 * float(np.sum(np.atleast_1d(given)))


def _container(vals, form):
    if form == "list":
        return [float(v) for v in vals]
    if form == "scalar":
        return float(vals[0])
    return np.array(vals, dtype=float)


def gen_size_cases(rng, n):
    """(p, precision_factor) combinations of the quantifier (precision_factor in [0.1, 1]) incl. probabilities whose
    sample size leaves the 100000 floor (p_small 1e-4 .. 1e-7) - no sample of that size is ever drawn"""
    smalls = [1e-4, 2e-5, 1e-5, 1e-6, 3e-7, 1e-7]
    for k in range(n):
        n_dim = 2 if k % 3 else 3
        pf = float(rng.choice([0.1, 0.1, 0.25, 0.5, 1.0, 1.0, float(np.round(rng.uniform(0.1, 1.0), 3))]))
        m = int(rng.integers(1, 6))
        ps = []
        for _ in range(m):
            r = int(rng.integers(0, 5))
            if r == 0:
                ps.append(float(rng.choice(smalls)))
            elif r == 1:
                ps.append(1.0 - float(rng.choice(smalls)))
            elif r == 2:
                ps.append(float(rng.uniform(0.001, 0.999)))
            elif r == 3:
                ps.append(float(10 ** rng.uniform(-7, -1)))
            else:
                ps.append(float(rng.choice([0.5, 0.3, 0.9, 0.999])))
        form = str(rng.choice(["ndarray", "list", "scalar"]))
        if form == "scalar":
            ps = ps[:1]
        yield {"part": "F", "n_dim": n_dim, "dim": int(rng.integers(0, n_dim)), "pf": pf, "p": ps, "p_as": form,
               "pf_passed": str(rng.choice(["keyword", "positional", "default"])),
               "rs": [None, 0, int(rng.integers(1, 2 ** 31))][int(rng.integers(0, 3))],
               "model": make_stub_case(rng, n_dim=n_dim, triple="stub"), "fail_at": int(rng.integers(-1, len(ps)))}


def process_sizes(ck, case):
    """sample sizes requested by marginal_icdf / conditional_icdf / conditional_cdf of a real TransformedModel whose
    two samplers (draw_sample, conditional_sample) are replaced by recorders: the size `n`, the random_state and the
    conditioning values handed over are compared with Model/McSize.lean and with the documented rule; the returned
    quantiles show which column / which conditioning value was used"""
    _, _, jm, _ = V()
    base, t, k, cube, _ = build_stub(case["model"])
    n_dim, dim, pf, ps = case["n_dim"], case["dim"], case["pf"], case["p"]
    if case["pf_passed"] == "default":
        pf = 1.0
    rec = []

    def fake_draw(n, *a, random_state=None, **kw):
        rec.append(("draw", n, random_state))
        return _fake_sample(n_dim)

    def fake_cond(n, d, given, *a, random_state=None, **kw):
        rec.append(("cond", n, d, np.array(given, dtype=float).ravel().tolist(), random_state))
        if len(rec_fail) and rec_fail[0] == sum(1 for r in rec if r[0] == "cond") - 1:
            raise jm.CouldNotSampleError("recorder: no sample for this conditioning value")
        return _fake_cond(given)

    rec_fail = []
    t.draw_sample = fake_draw
    t.conditional_sample = fake_cond
    ck.case(case, nontrivial=min(min(ps), 1 - max(ps)) * 100000 < 100 * pf, sample=ck.dist.get("part=F", 0) < 1)
    ck.count("part=F")
    ck.count("F_precision_factor=" + (str(case["pf"]) if case["pf"] in (0.1, 0.25, 0.5, 1.0) else "other"))
    ck.count("F_p_as=" + case["p_as"])
    ck.count(f"F_ndim={n_dim}_dim={dim}")
    bad, div = [], []
    p_arg = _container(ps, case["p_as"])
    pl = [float(v) for v in np.atleast_1d(np.asarray(p_arg, dtype=float))]
    # ---- marginal_icdf
    try:
        with np.errstate(all="ignore"):
            if case["pf_passed"] == "keyword":
                xm = t.marginal_icdf(p_arg, dim, precision_factor=pf, random_state=case["rs"])
            elif case["pf_passed"] == "positional":
                xm = t.marginal_icdf(p_arg, dim, pf, random_state=case["rs"])
            else:
                xm = t.marginal_icdf(p_arg, dim, random_state=case["rs"])
    except Exception as e:  # noqa: BLE001
        bad.append(("marginal_icdf", "returns", f"{type(e).__name__}: {e}"))
        xm = None
    draws = [r for r in rec if r[0] == "draw"]
    n_marg = None
    if xm is not None:
        if len(draws) != 1 or [r for r in rec if r[0] == "cond"]:
            div.append(f"marginal_icdf: sampler calls {[(r[0], r[1]) for r in rec]}, model: one draw_sample")
        else:
            n_marg = draws[0][1]
            p_small = min(min(pl), 1 - max(pl))
            if n_marg > 100000:
                ck.count("F_marginal_n_above_floor")
            # documented: "on average precision_factor * 100 realizations exceed the quantile. Minimum sample size is 100000"
            if not (isinstance(n_marg, (int, np.integer)) and n_marg >= 100000
                    and p_small * n_marg >= 100 * pf * (1 - 1e-9) - p_small - 1e-9):
                bad.append(("marginal_icdf", "sample_size_gives_documented_exceedances",
                            f"marginal_icdf(p={ps}, precision_factor={pf}) drew a sample of n = {n_marg!r}: expected "
                            f"exceedances p_small*n = {p_small * n_marg!r}, documented precision_factor*100 = {100 * pf!r} "
                            f"(minimum sample size 100000)"))
            if draws[0][2] is not case["rs"] and draws[0][2] != case["rs"]:
                div.append(f"marginal_icdf(random_state={case['rs']!r}) handed random_state={draws[0][2]!r} to draw_sample")
            want = np.quantile(_fake_sample(n_dim)[:, dim], p_arg)
            if not bits_equal(np.atleast_1d(np.asarray(xm, dtype=float)), np.atleast_1d(np.asarray(want, dtype=float))):
                bad.append(("marginal_icdf", "quantile_of_the_requested_dimension",
                            f"marginal_icdf(p={ps}, dim={dim}) = {np.asarray(xm).tolist()}, the p-quantile of column {dim} of "
                            f"the drawn sample is {np.asarray(want).tolist()} (column j holds 1000 (j+1) + 0..63)"))
    # ---- conditional_icdf / conditional_cdf (one conditioning row per probability)
    rec.clear()
    givens = [[float(1 + i + 0.25 * j) for j in range(n_dim - 1)] for i in range(len(pl))]
    g_arg = np.array(givens, dtype=float)
    if case["fail_at"] >= 0:
        rec_fail.append(case["fail_at"])
        ck.count("F_could_not_sample_branch")
    xc, n_cond = None, None
    p_vec = pl if case["p_as"] == "list" else np.array(pl, dtype=float)
    try:
        with np.errstate(all="ignore"):
            if case["pf_passed"] == "default":
                xc = t.conditional_icdf(p_vec, dim, g_arg, random_state=case["rs"])
            else:
                xc = t.conditional_icdf(p_vec, dim, g_arg, precision_factor=pf, random_state=case["rs"])
    except Exception as e:  # noqa: BLE001
        bad.append(("conditional_icdf", "returns", f"{type(e).__name__}: {e}"))
    conds = [r for r in rec if r[0] == "cond"]
    if xc is not None:
        if len(conds) != len(pl) or [r for r in rec if r[0] == "draw"]:
            div.append(f"conditional_icdf: {len(conds)} conditional_sample calls for {len(pl)} probabilities")
        else:
            n_cond = [r[1] for r in conds]
            if any(v > 100000 for v in n_cond):
                ck.count("F_conditional_n_above_floor")
            if any(v == 10000000 for v in n_cond):
                ck.count("F_conditional_n_at_cap")
            want = []
            for i, (pv, r) in enumerate(zip(pl, conds)):
                if r[2] != dim or r[3] != givens[i] or (r[4] is not case["rs"] and r[4] != case["rs"]):
                    div.append(f"conditional_icdf element {i}: conditional_sample(dim={r[2]}, given={r[3]}, random_state={r[4]!r}), "
                               f"model: dim={dim}, given={givens[i]}, random_state={case['rs']!r}")
                    break
                want.append(0.0 if i == case["fail_at"] else float(np.quantile(_fake_cond(givens[i]), pv)))
            if not div and not bits_equal(np.asarray(xc, dtype=float), np.array(want)):
                div.append(f"conditional_icdf values {np.asarray(xc).tolist()}, model (p_i-quantile of the sample for given_i; 0 after "
                           f"CouldNotSampleError) {want}")
    rec.clear()
    rec_fail.clear()
    x_ev = np.array([float(np.quantile(_fake_cond(g), 0.37)) for g in givens])
    pc = None
    try:
        pc = t.conditional_cdf(x_ev, dim, g_arg, random_state=case["rs"])
    except Exception as e:  # noqa: BLE001
        bad.append(("conditional_cdf", "returns", f"{type(e).__name__}: {e}"))
    n_cdf = [r[1] for r in rec if r[0] == "cond"]
    if pc is not None:
        want = np.array([(_fake_cond(g) <= xv).sum() / 100000 for g, xv in zip(givens, x_ev)])
        if n_cdf != [100000] * len(givens) or not bits_equal(np.asarray(pc, dtype=float), want):
            div.append(f"conditional_cdf: sample sizes {n_cdf}, values {np.asarray(pc).tolist()}; model: 100000 each, {want.tolist()}")
    for entry, pred, detail in bad:
        ck.fail({"entry": "MultivariateModel." + entry, "predicate": pred}, case, detail)
    # ---- Lean: Model/McSize.lean on the same doubles
    lines = [" ".join(["RUN", "c16nmarg", str(f2b(pf))] + fl(pl)), " ".join(["RUN", "c16ncond", str(f2b(pf))] + fl(pl)), "RUN c16ncdf"]
    a_m, a_c, a_f = [a.split() for a in ck.driver.run(lines)]
    if n_marg is not None and (a_m[0] != "OK" or int(a_m[1]) != int(n_marg)):
        div.append(f"marginal_icdf(p={ps}, precision_factor={pf}): n = {n_marg}, model {' '.join(a_m)}")
    if n_cond is not None and (a_c[0] != "OK" or [int(v) for v in a_c[2:]] != [int(v) for v in n_cond]):
        div.append(f"conditional_icdf(p={ps}, precision_factor={pf}): n = {n_cond}, model {' '.join(a_c)}")
    if n_cdf and [int(a_f[1])] * len(n_cdf) != [int(v) for v in n_cdf]:
        div.append(f"conditional_cdf: n = {n_cdf}, model {a_f[1]}")
    ck.hyp_checked += 3
    if div and not bad:
        ck.diverge("mc-sample-size", case, "; ".join(div[:3]))
    elif div:
        ck.count("divergence_with_oracle_failure")


def process_sizes_iform(ck, rng, given_case=None):
    """which sample sizes / random_state / conditioning values IFORMContour requests from a TransformedModel (both
    samplers replaced by recorders): marginal step with the model's precision_factor, conditional steps with the
    default precision_factor 1.0 (the code does not forward it there), all with the model's random_state"""
    virocon, _, _, _ = V()
    if given_case is not None:
        case = dict(given_case)
        alpha, pf, rs = case["alpha"], case["pf"], case["rs"]
    else:
        case = make_stub_case(rng, n_dim=2, triple="stub")
        alpha = float(rng.choice([1e-2, 1e-3, 1e-4, 1e-6]))
        pf = float(rng.choice([0.1, 0.5, 1.0]))
        rs = [0, int(rng.integers(1, 2 ** 31)), "generator"][int(rng.integers(0, 3))]
        case.update(part="F-iform", gen="sizes-iform", alpha=alpha, pf=pf, rs=rs, n_points=int(rng.choice([5, 8])))
    _, vt, jm, _ = V()
    base = StubBase(2, *case["base"])
    T, I, J = stub_triple(2, case["k"])
    rs_obj = np.random.default_rng(5) if rs == "generator" else rs
    t = jm.TransformedModel(base, T, I, J, precision_factor=pf, random_state=rs_obj)
    rec = []

    def fake_draw(n, *a, random_state=None, **kw):
        rec.append(("draw", n, random_state))
        return _fake_sample(2)

    def fake_cond(n, d, given, *a, random_state=None, **kw):
        rec.append(("cond", n, d, np.array(given, dtype=float).ravel().tolist(), random_state))
        return _fake_cond(given)

    t.draw_sample, t.conditional_sample = fake_draw, fake_cond
    ck.case(case, nontrivial=True, sample=False)
    ck.count("part=F-iform")
    ck.count("F_iform_random_state=" + ("generator" if rs == "generator" else "0" if rs == 0 else "int"))
    try:
        with np.errstate(all="ignore"), warnings.catch_warnings():
            warnings.simplefilter("ignore")
            c = np.asarray(virocon.IFORMContour(t, alpha, n_points=case["n_points"]).coordinates, dtype=float)
    except Exception as e:  # noqa: BLE001
        ck.fail({"entry": "IFORMContour(TransformedModel)", "predicate": "returns"}, case, f"{type(e).__name__}: {e}")
        return
    beta = sts.norm.ppf(1 - alpha)
    phi = np.linspace(0, 2 * np.pi, case["n_points"], endpoint=False)
    p0, p1 = sts.norm.cdf(beta * np.cos(phi)), sts.norm.cdf(beta * np.sin(phi))
    lines = [" ".join(["RUN", "c16nmarg", str(f2b(pf))] + fl(p0)), " ".join(["RUN", "c16ncond", str(f2b(1.0))] + fl(p1))]
    a_m, a_c = [a.split() for a in ck.driver.run(lines)]
    draws = [r for r in rec if r[0] == "draw"]
    conds = [r for r in rec if r[0] == "cond"]
    d = None
    same = lambda a: (a is rs_obj) if rs == "generator" else (a == rs_obj and a is not None)
    if len(draws) != 1 or len(conds) != case["n_points"]:
        d = f"{len(draws)} draw_sample and {len(conds)} conditional_sample calls, model 1 and {case['n_points']}"
    elif int(draws[0][1]) != int(a_m[1]):
        d = f"marginal step: n = {draws[0][1]}, model (precision_factor {pf} of the TransformedModel) {a_m[1]}"
    elif [int(r[1]) for r in conds] != [int(v) for v in a_c[2:]]:
        d = f"conditional steps: n = {[int(r[1]) for r in conds]}, model (precision_factor 1.0) {a_c[2:]}"
    elif not same(draws[0][2]) or not all(same(r[4]) for r in conds):
        d = f"random_state seen by the samplers {[draws[0][2]] + [r[4] for r in conds][:3]}..., the model's is {rs!r}"
    elif not all(r[2] == 1 and r[3] == [float(c[i, 0])] for i, r in enumerate(conds)):
        d = "conditional steps are not conditional_sample(dim=1, given=[coordinate 0 of the same contour point])"
    if d:
        ck.diverge("iform-mc-requests", case, d)


# =========================================================================== EW Hs-steepness models

PREDEF_PARS = {
    # fitted to datasets/ec-benchmark_dataset_C_1year.txt as in tests/test_predefined.py
    "windmeier": {"hs": [0.3558266426790537, 0.7722215906528377, 5.372851562500009],
                  "alpha": [0.0424514373112269, 0.9882603667617216], "beta": [1.3850625877279985, 0.8558017190459911]},
    "nonzero": {"hs": [0.3558266426790537, 0.7722215906528377, 5.372851562500009],
                "alpha": [0.03969066798489745, 0.7002946894910628], "beta": [1.3850625877279985, 0.8558017190459911]},
}
DELTA_S = 2.35


def random_hss(rng):
    u = rng.uniform
    kind = str(rng.choice(["windmeier", "nonzero"]))
    return {"kind": kind, "hs": [float(u(0.25, 0.9)), float(u(0.7, 1.3)), float(u(1.5, 6.0))],
            "alpha": [float(u(0.03, 0.07)), float(u(0.5, 1.5))], "beta": [float(u(1.0, 2.0)), float(u(0.3, 1.0))]}


def predef_hss(kind):
    return dict(PREDEF_PARS[kind], kind=kind)


class HsS:
    """a Hs-steepness model of the structure of the two predefined EW models + exact reference functions"""

    def __init__(self, spec):
        self.spec = spec
        _, vt, _, _ = V()
        self.F = float(vt.factor)

    def build(self, **kw):
        virocon, _, jm, predefined = V()
        get = predefined.get_Windmeier_EW_Hs_S if self.spec["kind"] == "windmeier" else predefined.get_Nonzero_EW_Hs_S
        dd, _, _, tr = get()
        a0, b0, d0 = self.spec["hs"]
        dd[0]["distribution"] = virocon.ExponentiatedWeibullDistribution(alpha=a0, beta=b0, delta=d0)
        pa, pb = dd[1]["parameters"]["alpha"], dd[1]["parameters"]["beta"]
        pa.parameters = dict(zip(pa.parameters.keys(), self.spec["alpha"]))
        pb.parameters = dict(zip(pb.parameters.keys(), self.spec["beta"]))
        base = virocon.GlobalHierarchicalModel(dd)
        t = jm.TransformedModel(base, tr["transform"], tr["inverse"], tr["jacobian"], **kw)
        return base, t, tr

    # ---- exact reference (closed forms, independent of virocon's distribution classes)
    @staticmethod
    def ew_cdf(x, a, b, d):
        x = np.asarray(x, dtype=float)
        with np.errstate(all="ignore"):
            return np.where(x > 0, (-np.expm1(-(x / a) ** b)) ** d, 0.0)

    @staticmethod
    def ew_pdf(x, a, b, d):
        x = np.asarray(x, dtype=float)
        with np.errstate(all="ignore"):
            z = (x / a) ** b
            return np.where(x > 0, d * b / a * (x / a) ** (b - 1) * np.exp(-z) * (-np.expm1(-z)) ** (d - 1), 0.0)

    @staticmethod
    def ew_icdf(p, a, b, d):
        p = np.asarray(p, dtype=float)
        return a * (-np.log1p(-p ** (1 / d))) ** (1 / b)

    def hs_cdf(self, hs):
        return self.ew_cdf(hs, *self.spec["hs"])

    def hs_icdf(self, p):
        return self.ew_icdf(p, *self.spec["hs"])

    def s_pars(self, hs):
        hs = np.asarray(hs, dtype=float)
        a, b = self.spec["alpha"]
        shift = 0.006 if self.spec["kind"] == "nonzero" else 0.0
        al = shift + a * (1 - np.exp(-b * hs))
        a2, b2 = self.spec["beta"]
        return al, a2 + b2 * hs

    def tz_cdf_given_hs(self, tz, hs):
        """P(Tz <= t | Hs = hs) = 1 - G_{S|hs}(F hs / t^2)   (Lean: C16.tz_conditional_cdf_deriv)"""
        tz = np.asarray(tz, dtype=float)
        al, be = self.s_pars(hs)
        with np.errstate(all="ignore"):
            return np.where(tz > 0, 1.0 - self.ew_cdf(self.F * hs / tz ** 2, al, be, DELTA_S), 0.0)

    def joint_pdf_hs_tz(self, hs, tz):
        al, be = self.s_pars(hs)
        s = self.F * hs / tz ** 2
        return self.ew_pdf(hs, *self.spec["hs"]) * self.ew_pdf(s, al, be, DELTA_S) * 2 * self.F * hs / tz ** 3

    def hs_cdf_given_tz_table(self, tz):
        """reference cdf of Hs given Tz = tz: f(hs | tz) is proportional to the closed-form joint density along hs;
        integrated by the trapezoidal rule in log(hs) on 40000 points (relative error ~1e-7), returned as a function"""
        from scipy.integrate import cumulative_trapezoid

        v = np.linspace(math.log(1e-7), math.log(float(self.hs_icdf(1 - 1e-14)) * 1.5), 40000)
        g = np.exp(v)
        with np.errstate(all="ignore"):
            f = np.asarray(self.joint_pdf_hs_tz(g, tz), dtype=float) * g
        f = np.where(np.isfinite(f), f, 0.0)
        F = cumulative_trapezoid(f, v, initial=0.0)
        F = F / F[-1]

        def cdf(x):
            x = np.asarray(x, dtype=float)
            with np.errstate(all="ignore"):
                return np.interp(np.log(np.maximum(x, 1e-300)), v, F, left=0.0, right=1.0)

        return cdf

    def joint_cdf(self, h, t):
        """P(Hs <= h, Tz <= t) by 1-D quadrature of f_hs(u) * P(Tz <= t | u)"""
        from scipy.integrate import quad

        f = lambda u: float(self.ew_pdf(u, *self.spec["hs"]) * self.tz_cdf_given_hs(t, u))
        pts = [float(self.hs_icdf(q)) for q in (0.01, 0.5, 0.99) if float(self.hs_icdf(q)) < h]
        v, err = quad(f, 0, h, points=pts or None, limit=400, epsabs=1e-11, epsrel=1e-10)
        return v


# =========================================================================== (D) sampler replays

def rows_for(n_dim, dim, given, x):
    x = np.asarray(x, dtype=float)
    R = np.empty((len(x), n_dim))
    others = [i for i in range(n_dim) if i != dim]
    R[:, dim] = x
    for j, i in enumerate(others):
        R[:, i] = given[j]
    return R


def replay_reference(tpdf, n_dim, dim, given, n, max_iter, seed):
    """Independent re-execution of conditional_sample's draws: returns the candidate list, grid,
    x_max, f_max, batches (xs, ys), the pdf values of everything (for TABLE lines)."""
    c = CONSTS
    table = []  # (row, value)

    def pdf(x):
        R = rows_for(n_dim, dim, given, x)
        with np.errstate(all="ignore"), warnings.catch_warnings():
            warnings.simplefilter("ignore")
            v = np.asarray(tpdf(R), dtype=float)
        table.append((R, v))
        return v

    x_max, floor_warn = c["hi"], False
    while pdf([x_max])[0] < c["thr"]:
        if x_max * c["mult"] > c["lo"]:
            x_max = c["mult"] * x_max
        else:
            x_max, floor_warn = c["lo"], True
            break
    grid = np.linspace(c["x_min"], x_max, c["grid_n"])
    f_max = float(pdf(grid).max() * c["slack"])
    rng = np.random.default_rng(seed)
    cnt, batches, acc = 0, [], []
    it = 0
    for it in range(max_iter):
        if cnt >= n:
            break
        tmp_n = max((n - cnt) * 10, n)
        xs = rng.uniform(c["x_min"], x_max, size=tmp_n)
        ys = rng.uniform(0.0, f_max, size=tmp_n)
        m = ys < pdf(xs)
        cnt += int(m.sum())
        acc.append(xs[m])
        batches.append((xs, ys))
    return {"x_max": float(x_max), "floor_warn": floor_warn, "f_max": f_max, "batches": batches, "table": table}


def run_conditional_sample(t, n, dim, given, seed, max_iter):
    _, _, jm, _ = V()
    out = {"floor_warn": False, "maxiter_warn": False, "error": None, "sample": None}
    with np.errstate(all="ignore"), warnings.catch_warnings(record=True) as w:
        warnings.simplefilter("always")
        try:
            out["sample"] = np.asarray(t.conditional_sample(n, dim, given, random_state=seed, max_iter=max_iter), dtype=float)
        except jm.CouldNotSampleError:
            out["error"] = "couldNotSample"
        except Exception as e:  # noqa: BLE001
            out["error"] = type(e).__name__ + ": " + str(e)[:100]
    for x in w:
        if issubclass(x.category, jm.MaxIterationWarning):
            out["maxiter_warn"] = True
        elif "smallest possible x_max" in str(x.message):
            out["floor_warn"] = True
    return out


def process_replay(ck, case):
    """case: {part: D, model: stub-case | hss-spec, n_dim, dim, given, n, max_iter, seed}"""
    if case["mode"] == "stub":
        base, t, k, cube, _ = build_stub(case["model"])
        n_dim = case["model"]["n_dim"]
    else:
        base, t, _ = HsS(case["model"]).build(precision_factor=0.1, random_state=None)
        n_dim = 2
    dim, given, n, max_iter, seed = case["dim"], case["given"], case["n"], case["max_iter"], case["seed"]
    impl = run_conditional_sample(t, n, dim, given if len(given) > 1 else given[0], seed, max_iter)
    ref = replay_reference(t.pdf, n_dim, dim, given, n, max_iter, seed)
    ck.case(case, nontrivial=n >= 10)
    ck.count("part=D")
    ck.count("D_mode=" + case["mode"])
    ck.count(f"D_ndim={n_dim}_dim={dim}")
    if impl["floor_warn"]:
        ck.count("D_xmax_floor_warning")
    if impl["maxiter_warn"]:
        ck.count("D_max_iteration_warning")
    if impl["error"]:
        ck.count("D_error=" + impl["error"].split(":")[0])
    # oracle on the real output: requested size, inside the sampling interval
    bad = []
    if impl["sample"] is not None:
        s = impl["sample"]
        if not impl["maxiter_warn"] and s.shape != (n,):
            bad.append(("returns_n_values", f"{s.shape} for n={n}"))
        if len(s) and not (s.min() >= CONSTS["x_min"] and s.max() <= CONSTS["hi"]):
            bad.append(("values_inside_sampling_interval", f"min {s.min()!r} max {s.max()!r}"))
    elif impl["error"] != "couldNotSample":
        bad.append(("no_unexpected_exception", impl["error"]))
    for pred, detail in bad:
        ck.fail({"entry": "MultivariateModel.conditional_sample", "predicate": pred}, case, detail)
    # ---- Lean model on the replayed stream
    lines = ["CLEAR"]
    if case["mode"] == "stub":
        if cube == "table":
            for R, v in ref["table"]:
                lines += [f"TABLE pow3 {f2b(q)} {f2b(w)}" for q, w in zip(R[:, 1], np.power(R[:, 1], 3))]
        head = ["RUN", "rej", "stub", cube, str(f2b(k))] + base.tokens()
    else:
        seen = set()
        for R, v in ref["table"]:
            for row, val in zip(R, v):
                key = " ".join(str(f2b(q)) for q in row)
                if key not in seen:
                    seen.add(key)
                    lines.append(f"TABLE pdf {key} {f2b(val)}")
        head = ["RUN", "rej", "table"]
    toks = head + [str(n_dim), str(dim)] + fl(given) + [str(n), str(max_iter), str(f2b(ref["x_max"])), str(f2b(ref["f_max"])),
                                                         str(len(ref["batches"]))]
    for xs, ys in ref["batches"]:
        toks += fl(xs) + fl(ys)
    lines.append(" ".join(toks))
    lines.append("CLEAR")
    ans = ck.driver.run(lines)[0].split()
    if bad:
        ck.count("divergence_with_oracle_failure")
        return
    if ans[0] == "ERR":
        if not (ans[1] == "couldNotSample" and impl["error"] == "couldNotSample"):
            ck.diverge("conditional-sample", case, f"model {' '.join(ans)}; impl error={impl['error']} "
                       f"sample={None if impl['sample'] is None else len(impl['sample'])}; reference x_max={ref['x_max']!r} f_max={ref['f_max']!r}")
        return
    m_xmax, m_floor, m_fmax, m_maxit = b2f(ans[1]), ans[2] == "1", b2f(ans[3]), ans[4] == "1"
    m_iters, m_acc = int(ans[5]), int(ans[6])
    m_sample = np.array([b2f(v) for v in ans[8:8 + int(ans[7])]])
    detail = None
    if impl["error"]:
        detail = f"impl raised {impl['error']}, model returns {len(m_sample)} values"
    elif f2b(m_xmax) != f2b(ref["x_max"]) or f2b(m_fmax) != f2b(ref["f_max"]):
        detail = f"x_max/f_max: model {m_xmax!r}/{m_fmax!r}, replay of the code {ref['x_max']!r}/{ref['f_max']!r}"
    elif m_floor != impl["floor_warn"]:
        detail = f"x_max floor warning: impl {impl['floor_warn']} model {m_floor}"
    elif m_maxit != impl["maxiter_warn"]:
        detail = f"MaxIterationWarning: impl {impl['maxiter_warn']} model {m_maxit} (iterations {m_iters}, accepted {m_acc})"
    elif not bits_equal(m_sample, impl["sample"]):
        a, b_ = impl["sample"], m_sample
        if a.shape != b_.shape:
            detail = f"sample length: impl {a.shape} model {b_.shape}"
        else:
            i = int(np.argmax(a != b_))
            detail = f"sample[{i}]: impl {a[i]!r} model {b_[i]!r}"
    if detail:
        ck.diverge("conditional-sample", case, detail)


def gen_replay_cases(rng, n_stub, n_fam, big):
    for _ in range(n_stub):
        m = make_stub_case(rng)
        d = m["n_dim"]
        dim = int(rng.integers(0, d))
        given = [float(10 ** rng.uniform(-0.5, 1.0)) for _ in range(d - 1)]
        n = int(rng.choice([10, 11, 37, 100, 1000] + ([10000] if big else [])))
        max_iter = int(rng.choice([100, 100, 100, 1, 2, 3]))
        yield {"part": "D", "mode": "stub", "model": m, "dim": dim, "given": given, "n": n, "max_iter": max_iter,
               "seed": int(rng.integers(0, 2 ** 31))}
    for i in range(n_fam):
        spec = predef_hss(["windmeier", "nonzero"][i % 2]) if i < 4 else random_hss(rng)
        h = HsS(spec)
        q = float(rng.choice([0.05, 0.5, 0.9, 0.99, 0.999, 0.9999, 1 - 1e-6]))
        dim = 1 if rng.uniform() < 0.75 else 0
        given = [float(h.hs_icdf(q))] if dim == 1 else [float(rng.uniform(3, 12))]
        n = int(rng.choice([10, 50, 300] + ([3000] if big else [])))
        yield {"part": "D", "mode": "table", "model": spec, "dim": dim, "given": given, "n": n,
               "max_iter": int(rng.choice([100, 100, 2, 5])), "seed": int(rng.integers(0, 2 ** 31)), "quantile": q}


def process_consts(ck):
    ans = ck.driver.run(["RUN c16consts"])[0].split()
    vals = [b2f(v) for v in ans[2:8]] + [int(ans[8])]
    want = [CONSTS[k] for k in ("x_min", "hi", "lo", "thr", "mult", "slack")] + [CONSTS["grid_n"]]
    if [f2b(v) for v in vals[:6]] != [f2b(v) for v in want[:6]] or vals[6] != want[6]:
        raise RuntimeError(f"model constants {vals} differ from the harness constants {want}")


# =========================================================================== (E) statistics

SIG_COND = "MultivariateModel.conditional_sample"


CUT_CLASS = "conditioning quantile <= 0.99; sample follows the exact conditional truncated at the x_max the search returns"


TAIL_CUT_CLASS = "conditioning quantile >= 0.999; sample follows the exact conditional truncated at the x_max the search returns"
TAIL_NONE_CLASS = "conditioning quantile >= 0.999; no sample: the x_max the search returns lies below the conditional's mass"


def cond_signature(q, cut=False, what=None, dim=1):
    """what fails decides the class: `cut` = the sample is exactly the conditional truncated at the x_max the documented
    search returns; what='none-below-mass' = nothing is accepted and the documented search explains it (its x_max lies
    below the conditional's mass). Everything else - also in the far tail - has no known class."""
    far = q >= 0.999
    if cut:
        cls = TAIL_CUT_CLASS if far else CUT_CLASS
    elif what == "none-below-mass" and far:
        cls = TAIL_NONE_CLASS
    elif what is not None:
        cls = f"conditioning quantile {'>= 0.999' if far else '<= 0.99'}; {what}"
    else:
        cls = "conditioning quantile >= 0.999; sample obtained, not the conditional truncated at the search's x_max" if far \
            else "conditioning quantile <= 0.99"
    if dim != 1:
        cls = "Hs given Tz; " + cls
    return {"entry": SIG_COND, "predicate": "ks_vs_exact_conditional", "input_class": cls}


def ref_xmax(h, hs, line=None):
    """the x_max the documented search (first 100*0.7^k whose JOINT density is >= 1e-7, floor 0.05) returns for the
    conditional of Tz given hs (or along any other line `line(x)` of the joint density), computed with the closed-form
    joint density (independent of the code under test)"""
    c = CONSTS
    line = line or (lambda x: h.joint_pdf_hs_tz(hs, x))
    x = c["hi"]
    with np.errstate(all="ignore"):
        while float(line(x)) < c["thr"]:
            if x * c["mult"] > c["lo"]:
                x = c["mult"] * x
            else:
                return c["lo"]
    return x


def probe_sampler(t, dim, given, n=200):
    """cheap pre-flight: does the sampler deliver n values at all? (a sampler that accepts next to nothing needs
    100 batches of 10*n draws; with n = 1e5 that is minutes and gigabytes - never start that)"""
    r = run_conditional_sample(t, n, dim, given, 0, 100)
    if r["sample"] is None:
        return r["error"]
    if r["maxiter_warn"] or len(r["sample"]) != n:
        return f"only {len(r['sample'])} of {n} values after 100 iterations (MaxIterationWarning)"
    return None


def process_conditional_stat(ck, case):
    """case: {part: E-cond, model, quantile, n, seed[, dim, q_tz]}; dim 1 (default): Tz given Hs at its `quantile`;
    dim 0: Hs given Tz, Tz at the conditional q_tz-quantile given the Hs `quantile`"""
    h = HsS(case["model"])
    base, t, _ = h.build(precision_factor=0.1, random_state=None)
    q, n, seed = case["quantile"], case["n"], case["seed"]
    dim = case.get("dim", 1)
    hs = float(h.hs_icdf(q))
    if dim == 1:
        given, what = hs, f"Hs = {hs!r} (quantile {q})"
        line = lambda x: h.joint_pdf_hs_tz(hs, x)
        cdf = lambda x: h.tz_cdf_given_hs(x, hs)
        ref_name = "the exact conditional cdf 1 - G_S|hs(F hs/t^2)"
    else:
        given = cond_q(h, hs, case["q_tz"])
        what = f"Tz = {given!r} (conditional {case['q_tz']}-quantile given the Hs {q}-quantile)"
        line = lambda x: h.joint_pdf_hs_tz(x, given)
        cdf = h.hs_cdf_given_tz_table(given)
        ref_name = "the conditional cdf of Hs given Tz (closed-form joint density integrated along hs)"
    ck.case(case, nontrivial=True)
    ck.count("part=E-conditional")
    ck.count(f"E_quantile={q}" + ("" if dim == 1 else "(Hs given Tz)"))

    def no_sample(detail):
        # nothing (or too little) accepted: known only where the documented search explains it - its x_max lies below
        # (practically) all of the conditional's mass
        xm = ref_xmax(h, hs, line)
        inside = float(cdf(xm))
        expl = "none-below-mass" if inside < 1e-3 else "no sample although the sampling interval holds conditional mass"
        ck.fail(cond_signature(q, what=expl, dim=dim), case,
                f"{what}: {detail}; the documented search gives x_max = {xm!r} with exact conditional mass {inside:.3e} below it")

    pre = probe_sampler(t, dim, given)
    if pre:
        no_sample(f"conditional_sample(200, {dim}, given): {pre} (conditional_icdf then returns 0)")
        return
    impl = run_conditional_sample(t, n, dim, given, seed, 100)
    eps = dkw_eps(n)
    if impl["sample"] is None:
        no_sample(f"{impl['error']} - no sample at all (conditional_icdf then returns 0)")
        return
    s = impl["sample"]
    if impl["maxiter_warn"] or len(s) != n:
        no_sample(f"only {len(s)} of {n} values (MaxIterationWarning)")
        return
    u = np.asarray(cdf(s), dtype=float)
    d = ks_uniform(u)
    ck.hyp_checked += 1
    ck.extra.setdefault("ks_conditional", {})[f"{case['model']['kind']}@{q}" + ("" if dim == 1 else "/Hs|Tz")] = round(d, 5)
    if d > eps:
        # is the sample exactly the conditional truncated at the x_max of the documented search? (then the only thing
        # wrong is that the search stops at the first candidate INSIDE the region with density above the threshold)
        xm = ref_xmax(h, hs, line)
        mass = 1.0 - float(cdf(xm))
        d_cut = ks_uniform(np.minimum(u / (1.0 - mass), 1.0)) if mass < 1 else 1.0
        cut = mass > 0 and d_cut <= eps and s.max() <= xm
        ck.fail(cond_signature(q, cut, dim=dim), case,
                f"{what}: KS distance between {n} conditional samples and {ref_name} is {d:.4f} > {eps:.4f}; sample range "
                f"[{s.min():.3f}, {s.max():.3f}]; the documented search gives "
                f"x_max = {xm!r} with exact conditional mass {mass:.4f} above it; KS to the conditional truncated there {d_cut:.4f}")
        return
    # repeatability and the thin wrappers (bulk only: cheap)
    again = run_conditional_sample(t, n, dim, given, seed, 100)["sample"]
    if again is None or not np.array_equal(again, s):
        ck.fail({"entry": SIG_COND, "predicate": "same_random_state_reproduces"}, case, "two calls with the same seed differ")
    if case.get("wrappers") and dim == 1:
        sig = cond_signature(q)
        e5 = dkw_eps(100000)
        q30, q90 = cond_q(h, hs, 0.3), cond_q(h, hs, 0.9)
        # the evaluation points as float ndarray, as Python list, and integer-valued with an integer dtype (periods in
        # whole seconds); the probabilities as ndarray and as list
        x_int = np.array(sorted({int(math.ceil(q30)), int(math.ceil(q90)) + 1}), dtype=np.int64)
        variants = [("float ndarray", np.array([q30, q90]), np.array([0.3, 0.9])),
                    ("list", [q30, q90], np.array([0.3, 0.9])),
                    ("integer ndarray", x_int, np.asarray(h.tz_cdf_given_hs(x_int.astype(float), hs), dtype=float))]
        for name, xq, want in variants:
            g = np.array([[hs]] * len(want))
            ck.count("E_conditional_cdf_x_as=" + name)
            try:
                with np.errstate(all="ignore"), warnings.catch_warnings():
                    warnings.simplefilter("ignore")
                    pc = np.asarray(t.conditional_cdf(xq, 1, g, random_state=seed), dtype=float)
                ok = pc.shape == want.shape and bool((np.abs(pc - want) <= e5).all())
                detail = f"{pc.tolist()}"
            except Exception as e:  # noqa: BLE001
                ok, detail = False, f"{type(e).__name__}: {e}"
            if not ok:
                cls = sig["input_class"] + ("" if name == "float ndarray" else f"; x passed as {name}")
                ck.fail({"entry": "MultivariateModel.conditional_cdf", "predicate": "matches_exact_conditional", "input_class": cls},
                        case, f"conditional_cdf(x = {np.asarray(xq).tolist()} ({name}), 1, given Hs={hs!r}) = {detail}, exact "
                              f"conditional probabilities {want.tolist()} (Monte-Carlo bound {e5:.4f})")
        for name, pq in (("ndarray", np.array([0.3, 0.9])), ("list", [0.3, 0.9])):
            ck.count("E_conditional_icdf_p_as=" + name)
            try:
                with np.errstate(all="ignore"), warnings.catch_warnings():
                    warnings.simplefilter("ignore")
                    xi = np.asarray(t.conditional_icdf(pq, 1, np.array([[hs], [hs]]), random_state=seed), dtype=float)
                pi = h.tz_cdf_given_hs(xi, hs)
                err = None
            except Exception as e:  # noqa: BLE001
                pi, err = [], f"{type(e).__name__}: {e}"
            cls = sig["input_class"] + ("" if name == "ndarray" else f"; p passed as {name}")
            if err:
                ck.fail({"entry": "MultivariateModel.conditional_icdf", "predicate": "matches_exact_conditional", "input_class": cls}, case, err)
            for p_, v in zip((0.3, 0.9), pi):
                lo, hi = quantile_band(100000, p_)
                if not (lo <= v <= hi):
                    ck.fail({"entry": "MultivariateModel.conditional_icdf", "predicate": "matches_exact_conditional", "input_class": cls},
                            case, f"conditional_icdf({p_}) given Hs={hs!r} has exact conditional probability {v!r}, outside [{lo:.5f}, {hi:.5f}]")


def _wind_alpha(x, a=2.0, b=100.0):
    return a + b * x


def process_conditional_3d(ck, case):
    """three variables (Hs, S | Hs, V | S) transformed to (Hs, Tz, V): the conditional of V given (Hs, Tz) is the
    Weibull template at s = F hs / tz^2 - exercises the placement of the conditioning values in the evaluation row"""
    virocon, _, jm, predefined = V()
    h = HsS(case["model"])
    get = predefined.get_Windmeier_EW_Hs_S if case["model"]["kind"] == "windmeier" else predefined.get_Nonzero_EW_Hs_S
    dd, _, _, tr = get()
    a0, b0, d0 = case["model"]["hs"]
    dd[0]["distribution"] = virocon.ExponentiatedWeibullDistribution(alpha=a0, beta=b0, delta=d0)
    pa, pb = dd[1]["parameters"]["alpha"], dd[1]["parameters"]["beta"]
    pa.parameters = dict(zip(pa.parameters.keys(), case["model"]["alpha"]))
    pb.parameters = dict(zip(pb.parameters.keys(), case["model"]["beta"]))
    wa, wb, wbeta = case["wind"]
    dep = virocon.DependenceFunction(_wind_alpha)
    dep.parameters = {"a": wa, "b": wb}
    dd.append({"distribution": virocon.WeibullDistribution(f_beta=wbeta, f_gamma=0.0), "conditional_on": 1, "parameters": {"alpha": dep}})
    base = virocon.GlobalHierarchicalModel(dd)
    T = lambda x: np.c_[tr["transform"](np.asarray(x)[:, :2]), np.asarray(x)[:, 2]]
    I = lambda y: np.c_[tr["inverse"](np.asarray(y)[:, :2]), np.asarray(y)[:, 2]]
    J = lambda x: tr["jacobian"](np.asarray(x)[:, :2])
    t = jm.TransformedModel(base, T, I, J)
    ck.case(case, nontrivial=True)
    ck.count("part=E-conditional-3d")
    hs = float(h.hs_icdf(case["q_hs"]))
    tz = cond_q(h, hs, case["q_tz"])
    s_val = h.F * hs / tz ** 2
    n, seed = case["n"], case["seed"]
    sig = {"entry": SIG_COND, "predicate": "ks_vs_exact_conditional", "input_class": "three variables, bulk conditioning values"}
    pre = probe_sampler(t, 2, [hs, tz])
    if pre:
        ck.fail(sig, case, f"given (Hs, Tz) = ({hs!r}, {tz!r}): conditional_sample(200, 2, given): {pre}")
        return
    impl = run_conditional_sample(t, n, 2, [hs, tz], seed, 100)
    smp = impl["sample"]
    if smp is None or len(smp) != n:
        ck.fail(sig, case, f"given (Hs, Tz) = ({hs!r}, {tz!r}): {impl['error']} / {None if smp is None else len(smp)} values")
        return
    al = wa + wb * s_val
    u = -np.expm1(-(smp / al) ** wbeta)
    d = ks_uniform(u)
    ck.hyp_checked += 1
    if d > dkw_eps(n):
        ck.fail(sig, case, f"given (Hs, Tz) = ({hs!r}, {tz!r}) (steepness {s_val!r}): KS distance of {n} conditional samples of V to the "
                           f"exact conditional Weibull(alpha={al!r}, beta={wbeta}) is {d:.4f} > {dkw_eps(n):.4f}")


def cond_q(h, hs, p):
    """exact conditional quantile of Tz given hs: sqrt(F hs / G^-1(1-p))"""
    al, be = h.s_pars(hs)
    s = h.ew_icdf(1 - p, al, be, DELTA_S)
    return float(np.sqrt(h.F * hs / s))


def process_model_stat(ck, case):
    """normalisation, cdf / empirical_cdf vs exact reference, draw_sample vs exact marginal + conditional"""
    h = HsS(case["model"])
    base, t, _ = h.build(precision_factor=0.1, random_state=case["seed"])
    ck.case(case, nontrivial=True)
    ck.count("part=E-model")
    n = case["n"]
    # (1) quadrature of the transformed pdf: Gauss-Legendre in log-coordinates
    m = 400
    z, w = np.polynomial.legendre.leggauss(m)
    lh = 0.5 * (z + 1) * (math.log(40) - math.log(1e-4)) + math.log(1e-4)
    lt = 0.5 * (z + 1) * (math.log(80) - math.log(1e-2)) + math.log(1e-2)
    wh = w * 0.5 * (math.log(40) - math.log(1e-4))
    wt = w * 0.5 * (math.log(80) - math.log(1e-2))
    H, T = np.meshgrid(np.exp(lh), np.exp(lt), indexing="ij")
    with np.errstate(all="ignore"), warnings.catch_warnings():
        warnings.simplefilter("ignore")
        f = np.asarray(t.pdf(np.c_[H.ravel(), T.ravel()]), dtype=float).reshape(m, m)
    f = np.where(np.isfinite(f), f, 0.0)
    total = float(np.sum(f * H * T * wh[:, None] * wt[None, :]))
    ck.extra.setdefault("pdf_integral", {})[case["model"]["kind"] + str(case["seed"])] = round(total, 6)
    ck.hyp_checked += 1
    if abs(total - 1) > 2e-3:
        ck.fail({"entry": "TransformedModel.pdf", "predicate": "integrates_to_one"}, case,
                f"Gauss-Legendre quadrature of pdf over hs in (1e-4,40), tz in (1e-2,80) = {total!r}")
    # pointwise against the closed-form push-forward density
    pts = np.c_[h.hs_icdf(np.array([0.2, 0.5, 0.9, 0.99])), [cond_q(h, float(h.hs_icdf(p)), q) for p, q in
                                                              zip((0.2, 0.5, 0.9, 0.99), (0.5, 0.1, 0.8, 0.95))]]
    with np.errstate(all="ignore"):
        got = np.asarray(t.pdf(pts.copy()), dtype=float)
    want = h.joint_pdf_hs_tz(pts[:, 0], pts[:, 1])
    if not np.allclose(got, want, rtol=1e-8):
        ck.fail({"entry": "TransformedModel.pdf", "predicate": "pdf_is_pushforward_of_base_density"}, case,
                f"pdf({pts.tolist()}) = {got.tolist()}, closed form {want.tolist()}")
    # (2) draw_sample: marginal of hs and PIT of tz | hs
    np.random.seed(case["seed"] % 2 ** 32)
    import inspect

    if "random_state" in inspect.signature(t.draw_sample).parameters:
        # the seeded path (the one contours and marginal_icdf use since the random_state repair)
        smp = np.asarray(t.draw_sample(n, random_state=case["seed"]), dtype=float)
    else:
        smp = np.asarray(t.draw_sample(n), dtype=float)
    eps = dkw_eps(n)
    if smp.shape != (n, 2):
        ck.fail({"entry": "TransformedModel.draw_sample", "predicate": "shape_n_by_ndim"}, case, f"{smp.shape}")
    else:
        d0 = ks_uniform(h.hs_cdf(smp[:, 0]))
        d1 = ks_uniform(h.tz_cdf_given_hs(smp[:, 1], smp[:, 0]))
        ck.hyp_checked += 2
        if d0 > eps or d1 > eps:
            ck.fail({"entry": "TransformedModel.draw_sample", "predicate": "sample_follows_pushforward"}, case,
                    f"KS of Hs marginal {d0:.4f}, of Tz|Hs (PIT through the exact conditional) {d1:.4f}; bound {eps:.4f}")
        # ecdf of the sample vs the model's own cdf / exact reference at a few points (Hoeffding = DKW epsilon)
        ev = np.array([[float(h.hs_icdf(0.5)), cond_q(h, float(h.hs_icdf(0.5)), 0.6)],
                       [float(h.hs_icdf(0.9)), cond_q(h, float(h.hs_icdf(0.8)), 0.7)]][: case.get("n_cdf", 1)])
        ref = np.array([h.joint_cdf(a, b) for a, b in ev])
        ec = np.asarray(t.empirical_cdf(ev.copy(), sample=smp), dtype=float)
        with np.errstate(all="ignore"), warnings.catch_warnings():
            warnings.simplefilter("ignore")
            cdf = np.asarray(t.cdf(ev.copy()), dtype=float)
        ck.hyp_checked += 2 * len(ev)
        if not (np.abs(cdf - ref) <= 1e-3).all():  # nquad's own accuracy on this integrand is ~1e-5
            ck.fail({"entry": "TransformedModel.cdf", "predicate": "cdf_is_integral_of_pushforward"}, case,
                    f"cdf({ev.tolist()}) = {cdf.tolist()}, exact {ref.tolist()}")
        if not (np.abs(ec - cdf) <= eps).all():
            ck.fail({"entry": "TransformedModel.empirical_cdf", "predicate": "ecdf_of_samples_matches_cdf"}, case,
                    f"empirical cdf of {n} samples {ec.tolist()} vs cdf {cdf.tolist()} (bound {eps:.4f})")
        if case.get("cached"):
            ec6 = np.asarray(t.empirical_cdf(ev.copy()), dtype=float)
            if not (np.abs(ec6 - ref) <= dkw_eps(1000000)).all():
                ck.fail({"entry": "TransformedModel.empirical_cdf", "predicate": "ecdf_of_samples_matches_cdf"}, case,
                        f"empirical cdf of the cached 1e6 sample {ec6.tolist()} vs exact {ref.tolist()}")


def process_iform(ck, case):
    """IFORM of the transformed model vs the exactly transformed IFORM contour of the base model; repeatability"""
    virocon, _, _, _ = V()
    h = HsS(case["model"])
    alpha, n_points, rs = case["alpha"], case["n_points"], case["random_state"]
    base, t, tr = h.build(precision_factor=case["precision_factor"], random_state=rs)
    ck.case(case, nontrivial=True)
    ck.count("part=E-iform")

    def contour():
        with np.errstate(all="ignore"), warnings.catch_warnings():
            warnings.simplefilter("ignore")
            return np.asarray(virocon.IFORMContour(t, alpha, n_points=n_points).coordinates, dtype=float)

    hs50 = float(h.hs_icdf(0.5))
    pre = probe_sampler(t, 1, hs50)
    if pre:
        ck.fail(cond_signature(0.5), case, f"Hs = {hs50!r} (median): conditional_sample(200, 1, Hs): {pre}")
        return
    c1 = contour()
    c2 = contour()
    if not np.array_equal(c1, c2):
        d = np.abs(c1 - c2).max(axis=0)
        ck.fail({"entry": "IFORMContour(TransformedModel)", "predicate": "same_random_state_reproduces"}, case,
                f"two IFORM contours of the same TransformedModel(random_state={rs}) differ: max |diff| per column {d.tolist()}")
    # exactly transformed contour of the base model
    with warnings.catch_warnings():
        warnings.simplefilter("ignore")
        cb = np.asarray(virocon.IFORMContour(base, alpha, n_points=n_points).coordinates, dtype=float)
    exact = np.asarray(tr["inverse"](cb))
    beta = sts.norm.ppf(1 - alpha)
    phi = np.linspace(0, 2 * np.pi, n_points, endpoint=False)
    p0, p1 = sts.norm.cdf(beta * np.cos(phi)), sts.norm.cdf(beta * np.sin(phi))
    # point k of the transformed-model contour corresponds to point (-k mod n) of the base contour (tz decreases in s)
    perm = (-np.arange(n_points)) % n_points
    exact_k = exact[perm]
    ck.extra.setdefault("iform_max_abs_diff", {})[case["model"]["kind"] + f"@{alpha}"] = np.abs(c1 - exact_k).max(axis=0).round(4).tolist()
    n0 = max(int((1 / min(p0.min(), 1 - p0.max())) * 100 * case["precision_factor"]), 100000)
    worst = None
    for k in range(n_points):
        lo, hi = quantile_band(n0, float(p0[k]))
        v0 = float(h.hs_cdf(c1[k, 0]))
        ps = p1[k] if p1[k] < 0.5 else 1 - p1[k]
        n1 = int(min(max((1 / ps) * 100, 100000), 10000000))
        lo1, hi1 = quantile_band(n1, float(p1[k]))
        v1 = float(h.tz_cdf_given_hs(c1[k, 1], c1[k, 0]))
        ck.hyp_checked += 2
        if not (lo <= v0 <= hi) or not (lo1 <= v1 <= hi1):
            worst = (k, v0, (lo, hi), v1, (lo1, hi1))
            break
    if worst:
        k, v0, b0, v1, b1 = worst
        sig = {"entry": "IFORMContour(TransformedModel)", "predicate": "agrees_with_transformed_base_contour"}
        xm = ref_xmax(h, float(c1[k, 0]))
        mass = 1.0 - float(h.tz_cdf_given_hs(xm, float(c1[k, 0])))
        if b0[0] <= v0 <= b0[1] and 0 < mass < 1 and b1[0] <= v1 / (1 - mass) <= b1[1] and c1[k, 1] <= xm:
            sig["input_class"] = "contour point whose conditional sample is truncated at the x_max the search returns"
        ck.fail(sig, case,
                f"point {k}: {c1[k].tolist()} vs exactly transformed base point {exact_k[k].tolist()}; exact probabilities "
                f"F_hs = {v0!r} (MC band {b0}), F_tz|hs = {v1!r} (MC band {b1}); documented x_max search for this Hs: {xm!r}, "
                f"exact conditional mass above it {mass:.4f}")


# =========================================================================== main

def corpus_cases():
    """witnesses of DESIGN section 4 #16, #17 (corpus/C16/*.json, replay payloads or bare cases)"""
    import glob
    import json
    import os

    d = os.path.join(os.path.dirname(os.path.dirname(os.path.abspath(__file__))), "corpus", "C16")
    for fn in sorted(glob.glob(os.path.join(d, "*.json"))):
        payload = json.load(open(fn))
        yield payload.get("case", payload)


def dispatch(ck, case):
    part = case["part"]
    if part == "B" and case.get("gen") == "stub-iform":
        process_stub_iform(ck, None, given_case=case)
    elif part == "F-iform":
        process_sizes_iform(ck, None, given_case=case)
    elif part == "B":
        process_stub(ck, case)
    elif part == "D":
        process_replay(ck, case)
    elif part == "E-cond":
        process_conditional_stat(ck, case)
    elif part == "E-cond3":
        process_conditional_3d(ck, case)
    elif part == "E-model":
        process_model_stat(ck, case)
    elif part == "E-iform":
        process_iform(ck, case)
    elif part == "A":
        process_transforms(ck, case.get("grid", 40))
    elif part == "F":
        process_sizes(ck, case)
    else:
        raise KeyError(part)


def main(ck):
    rng = np.random.default_rng(ck.seed)
    thorough = ck.tier == "thorough"
    ck.rule = ("(A) all shipped transforms / the predefined triples on a 40x40 log-grid over (1e-3,1e2)^2 vs the Lean Float model, "
               "round trips, Jacobian vs central differences; (B) real TransformedModel over an exact stub base model (n_dim 2/3, "
               "stub and shipped triple) bit-exact vs the composition model; (D) conditional_sample replays (stub pdf computed by the "
               "model, shipped families via TABLE pdf; n 10..1e4, max_iter 1..100, all dims, conditioning quantiles up to 1-1e-6) "
               "bit-exact vs the sampler model; (F) sample sizes / random_state / conditioning values requested by marginal_icdf, "
               "conditional_icdf, conditional_cdf and by IFORMContour from recorder-stubbed samplers: probabilities as scalar / list / "
               "ndarray with p_small down to 1e-7, precision_factor in [0.1, 1] passed by keyword / position / default, every dim of "
               "2- and 3-D models, random_state None / 0 / int / Generator, vs Model/McSize.lean; (E) statistics with distribution-free "
               "bounds at 1e-12: conditioning quantiles 0.01 .. 1-1e-6, Tz given Hs and Hs given Tz, wrappers with ndarray / list / "
               "integer x; non-trivial = at least 2 "
               "points / n >= 10; distinct by SHA1 of the case")
    ck.assumptions = ["numpy Generator streams are reproducible and uniform(low, high, size) is consumed in call order",
                      "DKW / Hoeffding / order-statistic (Beta) bounds at error probability 1e-12 per comparison",
                      "reference conditional cdf of Tz given Hs: 1 - G_S|hs(F hs/t^2) with the closed-form exponentiated Weibull cdf"]
    ck.partial = {
        "Monte-Carlo sample sizes": "the sizes requested by marginal_icdf / conditional_icdf / conditional_cdf are compared "
        "with Model/McSize.lean on recorder-stubbed samplers (part F; theorems marginalN_exceedances, condN_bounds, ...); a sample "
        "of 1e7 points is never drawn, the Monte-Carlo agreement itself is observed at precision_factor 0.1 only",
        "far tail": "conditioning quantiles >= 0.999 fail on the unchanged code (known findings) in exactly two ways: sample = "
        "conditional truncated at the search's x_max; nothing accepted with the search's x_max below the conditional's mass. "
        "Any other failure there is reported",
        "IFORM random_state": "iform_seeded_reproducible_trivial is rfl on an abstract 2-step model; that the code hands the model's "
        "random_state (0, int, Generator) to every Monte-Carlo step is observed (recorders) per run",
        "TransformedModel.fit / 3-D IFORM": "fit: correspondence only (transform(data) reaches the base model); a 3-D IFORM of a "
        "TransformedModel is outside the quantifier and not checked (its step for dimension 1 reads an uninitialised column)",
        "push-forward density integrates to one": "Gauss-Legendre quadrature of the real pdf per run (Mathlib has no ready change of variables at acceptable cost)",
        "cdf equals the empirical cdf of its own samples": "nquad cdf vs 1-D exact reference; ecdf within Hoeffding/DKW bounds",
        "samples follow the push-forward": "KS of Hs marginal and of the PIT of Tz|Hs through the exact conditional",
        "Monte-Carlo conditional samples / cdf / icdf follow the conditional density": "KS vs exact conditional for conditioning quantiles 0.5 .. 1-1e-6 (fails in the far tail: known finding)",
        "IFORM of the transformed model agrees with the transformed IFORM of the base model": "exact probabilities of the MC coordinates inside order-statistic bands",
        "reproduced exactly when random_state is set": "two runs compared bit for bit",
    }
    process_consts(ck)
    # cheap and decisive parts first: (A), (B)
    process_transforms(ck, 40)
    for n_dim, triple in ((2, "stub"), (2, "shipped"), (3, "stub")):
        process_stub(ck, make_stub_case(rng, n_dim=n_dim, triple=triple))
    for _ in range(400 if thorough else 60):
        process_stub(ck, make_stub_case(rng))
    process_stub_cached_sample(ck, rng)
    stop_after_ab = bool(ck.failures or ck.divergences)
    for case in gen_size_cases(rng, 600 if thorough else 120):
        process_sizes(ck, case)
    for _ in range(30 if thorough else 6):
        process_sizes_iform(ck, rng)
    if stop_after_ab:
        # a transform / Jacobian / composition that is already wrong makes the Monte-Carlo parts meaningless
        # (and, with a density that accepts nothing, very slow): report what was found
        ck.extra["stopped_after"] = "A/B (failure found; Monte-Carlo parts skipped)"
        return
    for case in corpus_cases():
        dispatch(ck, case)
    for i in range(4 if thorough else 2):
        process_stub_iform(ck, rng, rs=0 if i == 0 else None)  # the boundary seed 0 (falsy, legitimate) every run
    # (D)
    for case in gen_replay_cases(rng, 500 if thorough else 90, 120 if thorough else 30, thorough):
        process_replay(ck, case)
    # (E)
    kinds = ["windmeier", "nonzero"]
    main_kind = kinds[ck.seed % 2]
    if thorough:
        specs = [predef_hss("windmeier"), predef_hss("nonzero")] + [random_hss(rng) for _ in range(10)]
        for spec in specs:
            for i, q in enumerate((0.5, 0.9, 0.99, 0.999, 0.9999, 1 - 1e-6, 0.01, 0.05, 0.2)):
                process_conditional_stat(ck, {"part": "E-cond", "model": spec, "quantile": q, "n": 100000 if q < 0.99999 else 2000,
                                              "seed": int(rng.integers(0, 2 ** 31)), "wrappers": i == 0})
            # the other direction: Hs given Tz (dim 0)
            for qh, qt in ((0.5, 0.5), (0.9, 0.2), (0.05, 0.8)):
                process_conditional_stat(ck, {"part": "E-cond", "model": spec, "quantile": qh, "q_tz": qt, "dim": 0, "n": 100000,
                                              "seed": int(rng.integers(0, 2 ** 31))})
        for k6, spec in enumerate(specs[:6]):
            process_model_stat(ck, {"part": "E-model", "model": spec, "n": 100000,
                                    "seed": int(rng.integers(0, 2 ** 31)) if k6 else 0,  # boundary seed 0 once
                                    "n_cdf": 2, "cached": spec is specs[0]})
        for spec, alpha in ((specs[0], 2e-3), (specs[1], 5e-3), (specs[1], 2e-2), (specs[2], 5e-3), (specs[3], 1e-2),
                            (specs[4], 2e-3), (specs[5], 5e-2), (specs[6], 5e-3)):
            process_iform(ck, {"part": "E-iform", "model": spec, "alpha": alpha, "n_points": 12, "precision_factor": 0.1,
                               "random_state": int(rng.integers(0, 1000))})
    else:
        other = kinds[1 - ck.seed % 2]
        rnd = random_hss(rng)
        plan = [(predef_hss(main_kind), 0.5, True), (predef_hss(main_kind), 0.9, False), (predef_hss(main_kind), 0.99, False),
                (predef_hss(other), 0.5, False), (predef_hss(other), 0.99, False), (predef_hss(other), 0.9999, False),
                (rnd, 0.5, False), (rnd, 0.9, False), (rnd, 0.99, False), (rnd, 0.999, False), (predef_hss(other), 1 - 1e-6, False)]
        for spec, q, wr in plan:
            process_conditional_stat(ck, {"part": "E-cond", "model": spec, "quantile": q, "n": 100000 if q < 0.99999 else 2000,
                                          "seed": int(rng.integers(0, 2 ** 31)), "wrappers": wr})
        # narrow conditionals at low Hs, and the other direction (Hs given Tz, dim 0); own stream: the cases above keep
        # the values they had before these were added
        rng2 = np.random.default_rng([ck.seed, 16])
        for spec, q in ((rnd, 0.05), (predef_hss(main_kind), 0.01), (random_hss(rng2), float(rng2.choice([0.02, 0.1, 0.2])))):
            process_conditional_stat(ck, {"part": "E-cond", "model": spec, "quantile": q, "n": 100000,
                                          "seed": int(rng2.integers(0, 2 ** 31))})
        for spec, qh, qt in ((predef_hss(other), 0.5, 0.5), (rnd, float(rng2.choice([0.1, 0.9])), float(rng2.choice([0.2, 0.8])))):
            process_conditional_stat(ck, {"part": "E-cond", "model": spec, "quantile": qh, "q_tz": qt, "dim": 0, "n": 100000,
                                          "seed": int(rng2.integers(0, 2 ** 31))})
        # the model statistics run with the boundary seed 0 (falsy in Python, legitimate as a seed) every time
        rng.integers(0, 2 ** 31)
        process_model_stat(ck, {"part": "E-model", "model": predef_hss(other), "n": 100000, "seed": 0,
                                "n_cdf": 1})
        process_iform(ck, {"part": "E-iform", "model": predef_hss(other) if ck.seed % 3 else rnd, "alpha": float(rng.choice([2e-3, 1e-2, 2e-2])),
                           "n_points": 12, "precision_factor": 0.1, "random_state": int(rng.integers(0, 1000))})
    for i in range(6 if thorough else 2):
        process_conditional_3d(ck, {"part": "E-cond3", "model": predef_hss(kinds[i % 2]) if i < 2 else random_hss(rng),
                                    "wind": [float(rng.uniform(1, 3)), float(rng.uniform(50, 150)), float(rng.uniform(1.5, 3))],
                                    "q_hs": float(rng.uniform(0.2, 0.95)), "q_tz": float(rng.uniform(0.1, 0.9)),
                                    "n": 100000, "seed": int(rng.integers(0, 2 ** 31))})
    ck.extra["exhaustive"] = False


def replay(ck, payload):
    case = payload["case"]
    dispatch(ck, case)
    for s, c, d in ck.failures:
        print("oracle:", s, d)
    for kid, (k, c, d) in ck.known_seen.items():
        print("oracle (known finding):", kid, d)
    for op, c, d in ck.divergences:
        print("correspondence:", op, d)
    return not ck.failures and not ck.known_seen
