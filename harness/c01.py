"""
C01 - IFORM/ISORM contours are the inverse-Rosenblatt image of the beta-sphere.

Correspondence
  (A) doubles: real GlobalHierarchicalModel + IFORMContour/ISORMContour over rational leaves;
      the Lean model (Model/Hier.lean, Model/Doubles.lean) reproduces beta, sphere points and
      coordinates bit for bit (leaves Phi, Phi^-1, chi2^-1, cos, sin are TABLE'd).
  (B) shipped families: the leaf icdf is an uninterpreted TABLE filled from *constructed*
      template instances at independently evaluated dependence values; the Lean chain decides
      which (dimension, probability, conditioning value) triples are looked up.
Oracle on the implementation's output: componentwise back-map through the model's own cdf and
norm.ppf equals the sphere point (=> radius beta, directions), beta vs independent isf, row count,
2-D angles, max of first variable.
"""
import math
import warnings

import numpy as np
import scipy.stats as sts

from core import f2b, b2f, fl
import doubles
import models

TWO_PI = 2 * np.pi
DEFAULT_N_POINTS = 180  # documented public default of IFORMContour / ISORMContour ("Defaults to 180")


def contour_classes():
    from virocon import IFORMContour, ISORMContour

    return {"iform": IFORMContour, "isorm": ISORMContour}


_SPHERE_CACHE = {}


def unit_sphere(n_dim, n_points):
    """unit directions the code uses (input of the model for n_dim >= 3; NSphere is seeded, hence cached)"""
    key = (n_dim, n_points)
    if key not in _SPHERE_CACHE:
        if len(_SPHERE_CACHE) > 64:
            _SPHERE_CACHE.clear()
        _SPHERE_CACHE[key] = _unit_sphere(n_dim, n_points)
    return _SPHERE_CACHE[key]


def _unit_sphere(n_dim, n_points):
    if n_dim == 2:
        phi = np.linspace(0, 2 * np.pi, num=n_points, endpoint=False)
        return np.stack((np.cos(phi), np.sin(phi)), axis=1), phi
    from virocon._nsphere import NSphere

    return NSphere(dim=n_dim, n_samples=n_points).unit_sphere_points, None


def beta_of(kind, alpha, n_dim):
    if kind == "iform":
        return float(sts.norm.ppf(1 - alpha))
    return float(np.sqrt(sts.chi2.ppf(1 - alpha, n_dim)))


def alpha_object(case):
    """the object handed to the contour as `alpha`: a Python float, a numpy scalar, or whatever the library's
    own `calculate_alpha(state_duration, return_period)` returns"""
    form = case.get("alpha_form")
    if form == "np.float64":
        return np.float64(case["alpha"])
    if form == "calculate_alpha":
        from virocon import calculate_alpha

        return calculate_alpha(*case["alpha_args"])
    return case["alpha"]


def n_points_of(case):
    return DEFAULT_N_POINTS if case["n_points"] is None else case["n_points"]


def run_impl(kind, model, alpha, n_points):
    """n_points None => the argument is omitted (public default)"""
    cls = contour_classes()[kind]
    kw = {} if n_points is None else {"n_points": n_points}
    with warnings.catch_warnings():
        warnings.simplefilter("ignore")
        with np.errstate(all="ignore"):
            c = cls(model, alpha, **kw)
    return {"beta": float(c.beta), "sphere": np.array(c.sphere_points, dtype=float),
            "coords": np.array(c.coordinates, dtype=float)}


def reference_chain(desc, fam, Phi):
    """the inverse-Rosenblatt chain recomputed without any virocon plumbing: doubles by the RatDist formula at
    independently evaluated dependence values, families by constructed leaves (scalar calls)"""
    n_points, n_dim = Phi.shape
    x = np.full((n_points, n_dim), np.nan)
    with np.errstate(all="ignore"), warnings.catch_warnings():
        warnings.simplefilter("ignore")
        for i in range(n_dim):
            ci = desc.cond[i]
            for j in range(n_points):
                g = None if ci is None else float(x[j, ci])
                try:
                    if fam is not None:
                        v = float(fam.leaf(i, g).icdf(Phi[j, i]))
                    else:
                        s_, l_ = desc.s[i].value(0.0 if g is None else g), desc.l[i].value(0.0 if g is None else g)
                        p = float(Phi[j, i])
                        v = l_ + s_ * p / (1 - p)
                except (ValueError, ZeroDivisionError, OverflowError, FloatingPointError):
                    v = float("nan")
                x[j, i] = v
    return x


def model_lines(kind, desc, alpha, n_points, fam=None):
    """TABLE lines + RUN line for one case. `fam` (FamModel) => table mode for the leaves."""
    n_dim = desc.n_dim
    oma = 1 - alpha
    beta = beta_of(kind, alpha, n_dim)
    unit, phi = unit_sphere(n_dim, n_points)
    sphere = beta * unit
    Phi = sts.norm.cdf(sphere)
    lines = ["CLEAR", f"TABLE {'beta' if kind == 'iform' else 'betaS'} {f2b(oma)} {f2b(beta)}"]
    for v, p in zip(sphere.ravel(), Phi.ravel()):
        lines.append(f"TABLE Phi {f2b(v)} {f2b(p)}")
    if n_dim == 2:
        for a, c, s in zip(phi, unit[:, 0], unit[:, 1]):
            lines.append(f"TABLE cos {f2b(a)} {f2b(c)}")
            lines.append(f"TABLE sin {f2b(a)} {f2b(s)}")
    if fam is not None:
        # reference chain with independent, constructed leaves (scalar calls)
        x = reference_chain(desc, fam, Phi)
        for i in range(n_dim):
            ci = fam.cond[i]
            for j in range(n_points):
                g = None if ci is None else float(x[j, ci])
                lines.append(models.table_line("Q", i, Phi[j, i], g, x[j, i]))
    toks = desc.tokens()
    if n_dim == 2:
        lines.append(" ".join(["RUN", "iform2", kind] + toks + [str(f2b(oma)), str(f2b(TWO_PI)), str(n_points)]))
    else:
        lines.append(" ".join(["RUN", "iformN", kind] + toks + [str(f2b(oma)), str(n_points)]
                              + [str(f2b(v)) for v in unit.ravel()]))
    return lines


def parse_model(ans, n_points, n_dim):
    t = ans.split()
    if t[0] != "OK":
        return {"err": " ".join(t[1:])}
    vals = [b2f(v) for v in t[2:]]
    beta = vals[0]
    k = n_points * n_dim
    sphere = np.array(vals[1:1 + k]).reshape(n_points, n_dim)
    coords = np.array(vals[1 + k:1 + 2 * k]).reshape(n_points, n_dim)
    return {"beta": beta, "sphere": sphere, "coords": coords}


def bits_equal(a, b):
    a = np.ascontiguousarray(a, dtype=np.float64)
    b = np.ascontiguousarray(b, dtype=np.float64)
    return a.shape == b.shape and np.array_equal(a.view(np.uint64), b.view(np.uint64))


def compare(impl, mod, exact, rtol=1e-11):
    if "err" in mod:
        return "model error: " + mod["err"]
    if f2b(impl["beta"]) != f2b(mod["beta"]):
        return f"beta impl={impl['beta']!r} model={mod['beta']!r}"
    if not bits_equal(impl["sphere"], mod["sphere"]):
        return "sphere points differ"
    if impl["coords"].shape != mod["coords"].shape:
        return f"shape impl={impl['coords'].shape} model={mod['coords'].shape}"
    if bits_equal(impl["coords"], mod["coords"]):
        return None
    if exact:
        d = np.argwhere(impl["coords"].view(np.uint64) != mod["coords"].view(np.uint64))[0]
        return f"coordinates differ at {tuple(d)}: impl={impl['coords'][tuple(d)]!r} model={mod['coords'][tuple(d)]!r}"
    err = np.abs(impl["coords"] - mod["coords"]) / np.maximum(1e-300, np.abs(mod["coords"]))
    if np.nanmax(err) > rtol or np.isnan(impl["coords"]).any():
        d = np.unravel_index(np.nanargmax(err), err.shape)
        return f"coordinates differ at {d}: impl={impl['coords'][d]!r} model={mod['coords'][d]!r}"
    return "inexact-ok"


def oracle(kind, model, alpha, n_points, impl):
    """property clauses on the implementation's own output"""
    alpha = float(alpha)
    bad = []
    n_dim = model.n_dim
    C, S, beta = impl["coords"], impl["sphere"], impl["beta"]
    if C.shape != (n_points, n_dim):
        bad.append(("n_points_rows", f"shape {C.shape} expected {(n_points, n_dim)}"))
        return bad, 0
    # beta against an independent route (survival functions)
    want = float(sts.norm.isf(alpha)) if kind == "iform" else float(np.sqrt(sts.chi2.isf(alpha, n_dim)))
    if not abs(beta - want) <= 1e-6 * max(1.0, abs(want)):
        bad.append(("beta_value", f"beta={beta!r} expected {want!r}"))
    # back-map through the model's own cdfs
    def backmap(X):
        V = np.empty_like(X)
        with np.errstate(all="ignore"), warnings.catch_warnings():
            warnings.simplefilter("ignore")
            for i in range(n_dim):
                ci = model.conditional_on[i]
                if ci is None:
                    p = model.distributions[i].cdf(X[:, i])
                else:
                    p = model.distributions[i].cdf(X[:, i], given=X[:, ci])
                V[:, i] = sts.norm.ppf(np.asarray(p, dtype=float))
        return V

    U = backmap(C)
    # conditioning of the back-map at these points: how far u moves when the coordinates move by a few ulps
    # (location parameters that grow with an extreme conditioning value cancel against x)
    eps = 8 * np.finfo(float).eps
    sens = np.zeros_like(U)
    for k in range(n_dim):
        for sgn in (1.0, -1.0):
            Cp = C.copy()
            Cp[:, k] = Cp[:, k] * (1 + sgn * eps)
            d = np.abs(backmap(Cp) - U)
            sens = np.maximum(sens, np.where(np.isfinite(d), d, np.inf))
    n_hyp = U.size
    r = np.sqrt((U * U).sum(axis=1))
    tol_comp = 1e-8 + 5e-14 / np.maximum(sts.norm.pdf(np.abs(S)), 1e-300) + 4 * sens
    tol_r = tol_comp.sum(axis=1)
    if not np.all(np.abs(r - beta) <= tol_r):
        j = int(np.argmax(np.abs(r - beta) - tol_r))
        bad.append(("radius_is_beta", f"point {j}: |u|={r[j]!r} beta={beta!r} coords={C[j].tolist()}"))
    if not np.all(np.abs(U - S) <= tol_comp):
        d = np.unravel_index(np.argmax(np.abs(U - S) - tol_comp), U.shape)
        bad.append(("rosenblatt_image_is_sphere_point", f"point {d[0]} dim {d[1]}: u={U[d]!r} sphere={S[d]!r}"))
    # sphere: radius, directions
    rs = np.sqrt((S * S).sum(axis=1))
    if not np.all(np.abs(rs - beta) <= 1e-9 * max(1.0, beta)):
        bad.append(("sphere_radius", f"max dev {np.max(np.abs(rs - beta))!r}"))
    if beta == 0.0:
        # IFORM at alpha = 0.5: the sphere degenerates to the origin, "directions" do not exist; radius, back-map
        # and the first-variable clause are still checked
        if n_dim == 2 and kind == "iform":
            q = float(np.asarray(model.distributions[0].icdf(1 - alpha)))
            if not np.all(np.abs(C[:, 0] - q) <= 1e-6 * max(1.0, abs(q))):
                bad.append(("max_first_variable_is_marginal_quantile", f"beta=0: x0={C[:, 0].tolist()[:4]} median={q!r}"))
        return bad, n_hyp
    if n_dim == 2:
        ang = np.mod(np.arctan2(S[:, 1], S[:, 0]), 2 * np.pi)
        want_ang = 2 * np.pi * np.arange(n_points) / n_points
        dev = np.abs(ang - want_ang)
        dev = np.minimum(dev, 2 * np.pi - dev)
        if not np.all(dev <= 1e-9):
            bad.append(("angles_equally_spaced", f"max dev {dev.max()!r} at {int(dev.argmax())}"))
        if kind == "iform":
            q = float(np.asarray(model.distributions[0].icdf(1 - alpha)))
            mx = float(C[:, 0].max())
            if not (mx == C[0, 0] and abs(mx - q) <= 1e-6 * max(1.0, abs(q))):
                bad.append(("max_first_variable_is_marginal_quantile", f"max x0={mx!r} first={C[0,0]!r} quantile={q!r}"))
    else:
        Un = S / max(beta, 1e-300)
        G = Un @ Un.T
        np.fill_diagonal(G, -1.0)
        if G.max() >= 1 - 1e-12:
            bad.append(("distinct_directions", f"two sphere points coincide (max cos {G.max()!r})"))
    return bad, n_hyp


def sig(kind, pred):
    return {"entry": {"iform": "IFORMContour", "isorm": "ISORMContour"}[kind], "predicate": pred}


# --------------------------------------------------------------------------- extended families
# Every family the library ships (virocon.distributions), including the real-line ones (Normal, VonMises, a
# ScipyDistribution subclass without shape parameter), LogNormalNormFit, a ScipyDistribution subclass with a shape
# parameter, and a 3-parameter Weibull whose location gamma depends on the conditioning variable.  The independent
# leaf is a frozen scipy distribution built from independently evaluated dependence values (no virocon class).

XFAMILIES = {
    "Normal": ["mu", "sigma"],
    "VonMises": ["kappa", "mu"],
    "LogNormalNormFit": ["mu_norm", "sigma_norm"],
    "ScipyGumbel": ["loc", "scale"],
    "ScipyWeibullMin": ["c", "loc", "scale"],
    "Weibull": ["alpha", "beta", "gamma"],
    "LogNormal": ["mu", "sigma"],
}
X_REAL_LINE = ("Normal", "VonMises", "ScipyGumbel")
X_LOCATION = {("Normal", "mu"), ("VonMises", "mu"), ("ScipyGumbel", "loc"), ("LogNormal", "mu")}
_XCLS = {}


def xclass(family):
    if not _XCLS:
        import virocon
        import virocon.distributions as vd

        class ScipyGumbel(virocon.ScipyDistribution):
            scipy_dist_name = "gumbel_r"

        class ScipyWeibullMin(virocon.ScipyDistribution):
            scipy_dist_name = "weibull_min"

        _XCLS.update({"Normal": virocon.NormalDistribution, "VonMises": virocon.VonMisesDistribution,
                      "LogNormalNormFit": getattr(vd, "LogNormalNormFitDistribution", None),
                      "ScipyGumbel": ScipyGumbel, "ScipyWeibullMin": ScipyWeibullMin,
                      "Weibull": virocon.WeibullDistribution, "LogNormal": virocon.LogNormalDistribution})
    return _XCLS[family]


class _Frozen:
    def __init__(self, d):
        self.d = d

    def icdf(self, p):
        return self.d.ppf(p)

    def cdf(self, x):
        return self.d.cdf(x)


def x_frozen(family, v):
    if family == "Normal":
        return sts.norm(loc=v["mu"], scale=v["sigma"])
    if family == "VonMises":
        return sts.vonmises(v["kappa"], loc=v["mu"])
    if family == "LogNormalNormFit":
        m, sd = v["mu_norm"], v["sigma_norm"]
        sigma = math.sqrt(math.log(1 + sd * sd / (m * m)))
        mu = math.log(m / math.sqrt(1 + sd * sd / (m * m)))
        return sts.lognorm(sigma, loc=0, scale=math.exp(mu))
    if family == "ScipyGumbel":
        return sts.gumbel_r(loc=v["loc"], scale=v["scale"])
    if family == "ScipyWeibullMin":
        return sts.weibull_min(v["c"], loc=v["loc"], scale=v["scale"])
    if family == "Weibull":
        return sts.weibull_min(v["beta"], loc=v["gamma"], scale=v["alpha"])
    if family == "LogNormal":
        return sts.lognorm(v["sigma"], loc=0, scale=math.exp(v["mu"]))
    raise KeyError(family)


class FamModelX(models.FamModel):
    def build(self):
        from virocon import DependenceFunction, GlobalHierarchicalModel

        descs = []
        for d in self.dims:
            cls = xclass(d["family"])
            if d["cond"] is None:
                descs.append({"distribution": cls(**{k: v[1] for k, v in d["params"].items()})})
            else:
                kw, pars = {}, {}
                for name, spec in d["params"].items():
                    if spec[0] == "fixed":
                        kw["f_" + name] = spec[1]
                    else:
                        df = DependenceFunction(models.DEP_FUNCS[spec[1]])
                        df.parameters = dict(zip(df.parameters.keys(), spec[2]))
                        pars[name] = df
                descs.append({"distribution": cls(**kw), "conditional_on": d["cond"], "parameters": pars})
        return GlobalHierarchicalModel(descs)

    def leaf(self, i, g=None):
        return _Frozen(x_frozen(self.dims[i]["family"], self.param_values(i, g)))

    def describe(self):
        return {"dims": self.dims, "x": True}


def x_base_value(rng, fam, par):
    u = rng.uniform
    table = {
        ("Normal", "mu"): lambda: u(-1.0, 2.0), ("Normal", "sigma"): lambda: u(0.4, 1.5),
        ("VonMises", "kappa"): lambda: u(0.5, 8.0), ("VonMises", "mu"): lambda: u(-1.0, 1.0),
        ("LogNormalNormFit", "mu_norm"): lambda: u(1.0, 5.0), ("LogNormalNormFit", "sigma_norm"): lambda: u(0.3, 2.0),
        ("ScipyGumbel", "loc"): lambda: u(-1.0, 3.0), ("ScipyGumbel", "scale"): lambda: u(0.3, 1.5),
        ("ScipyWeibullMin", "c"): lambda: u(0.9, 3.0), ("ScipyWeibullMin", "loc"): lambda: float(rng.choice([0.0, 0.0, 0.5])),
        ("ScipyWeibullMin", "scale"): lambda: 10 ** u(-0.3, 0.7),
        ("Weibull", "alpha"): lambda: 10 ** u(-0.3, 0.7), ("Weibull", "beta"): lambda: u(0.9, 3.0),
        ("Weibull", "gamma"): lambda: u(0.0, 1.0),
        ("LogNormal", "mu"): lambda: u(-0.3, 1.5), ("LogNormal", "sigma"): lambda: u(0.15, 0.7),
    }
    return float(table[(fam, par)]())


def random_fam_model_x(rng, n_dim, cond=None):
    """random hierarchical model over XFAMILIES; dependence functions are chosen so that every parameter stays
    admissible over the whole range of the conditioning variable (which may be negative)"""
    if cond is None:
        cond = doubles.random_structure(rng, n_dim)
        if n_dim >= 2 and cond[1] is None and rng.integers(0, 2):
            cond[1] = 0
    fams = list(XFAMILIES)
    if xclass("LogNormalNormFit") is None:
        fams.remove("LogNormalNormFit")
    dims, neg = [], []
    for i in range(n_dim):
        if i == 0 and rng.integers(0, 2):
            fam = str(rng.choice(X_REAL_LINE))  # a conditioning variable that takes negative values
        else:
            fam = str(rng.choice(fams))
        names = XFAMILIES[fam]
        params = {}
        if cond[i] is None:
            for nme in names:
                params[nme] = ("fixed", x_base_value(rng, fam, nme))
        else:
            parent_neg = neg[cond[i]]
            n_dep = 0
            order = list(names)
            for nme in order:
                level = x_base_value(rng, fam, nme)
                want_dep = rng.integers(0, 3) > 0 or (n_dep == 0 and nme == order[-1])
                if (fam, nme) == ("ScipyWeibullMin", "loc"):
                    want_dep = False
                if not want_dep:
                    params[nme] = ("fixed", level)
                    continue
                n_dep += 1
                if (fam, nme) in X_LOCATION:
                    params[nme] = ("dep", "linear2", [level, float(rng.uniform(-0.25, 0.25))])
                elif (fam, nme) == ("Weibull", "gamma"):
                    # location of the 3-parameter Weibull follows the conditioning variable, stays >= 0
                    if parent_neg:
                        params[nme] = ("dep", "exp3", [level, float(rng.uniform(0.05, 0.4)), float(rng.uniform(0.01, 0.08))])
                    else:
                        params[nme] = ("dep", "linear2", [level, float(rng.uniform(0.01, 0.2))])
                else:
                    kinds = ["exp3", "logistics4"] if parent_neg else ["power3", "exp3", "asym3", "logistics4", "linear2"]
                    kind = str(rng.choice(kinds))
                    params[nme] = ("dep", kind, [float(v) for v in models.random_dep_pars(rng, kind, level)])
            if n_dep == 0:  # ScipyWeibullMin with only `loc` left
                nme = names[0]
                level = x_base_value(rng, fam, nme)
                kind = "exp3" if parent_neg else "asym3"
                params[nme] = ("dep", kind, [float(v) for v in models.random_dep_pars(rng, kind, level)])
        dims.append({"family": fam, "cond": cond[i], "params": params})
        neg.append(fam in X_REAL_LINE)
    return FamModelX(dims)


def gen_cases(rng, n_cases, max_points, table_frac=0.35):
    for k in range(n_cases):
        kind = "iform" if rng.integers(0, 2) == 0 else "isorm"
        alpha = float(10 ** rng.uniform(-8, math.log10(0.5)))
        table = rng.uniform() < table_frac
        n_dim = int(rng.choice([2, 2, 3, 4]))
        n_points = int(rng.integers(3, max_points + 1)) if n_dim == 2 else int(rng.integers(3, min(max_points, 24) + 1))
        if table:
            m = random_fam_model_x(rng, n_dim) if rng.integers(0, 2) else models.random_fam_model(rng, n_dim=n_dim)
            yield {"mode": "table", "kind": kind, "alpha": alpha, "n_points": n_points, "model": m.describe()}
        else:
            m = doubles.random_model(rng, n_dim=n_dim)
            yield {"mode": "doubles", "kind": kind, "alpha": alpha, "n_points": n_points, "model": m.describe()}


def structure_cases(rng):
    """every admissible conditional_on structure for n_dim 2..4, doubles mode"""
    for n_dim in (2, 3, 4):
        for cond in doubles.all_structures(n_dim):
            m = doubles.random_model(rng, n_dim=n_dim, cond=cond)
            for kind in ("iform", "isorm"):
                yield {"mode": "doubles", "kind": kind, "alpha": float(10 ** rng.uniform(-6, -0.4)),
                       "n_points": 7 if n_dim > 2 else 12, "model": m.describe(), "gen": "all-structures"}


def npoints_sweep_cases(rng, hi):
    """every n_points from 3 to `hi` once on one 2-D model (the number of contour points must be exactly
    n_points for every value, not only for round ones)"""
    m = doubles.random_model(rng, n_dim=2, cond=[None, 0])
    for n_points in range(3, hi + 1):
        yield {"mode": "doubles", "kind": "iform" if n_points % 2 else "isorm", "alpha": 0.01, "n_points": n_points,
               "model": m.describe(), "gen": "n_points-sweep"}


def special_cases(rng, thorough):
    """input classes the random draw never produces: alpha exactly at the ends of [1e-8, 0.5], alpha as a numpy
    scalar / as the output of calculate_alpha, and n_points left at its public default (180) in 2-D, 3-D (and 4-D)"""
    from virocon import calculate_alpha

    def mk(n_dim, table):
        if table:
            return "table", random_fam_model_x(rng, n_dim) if rng.integers(0, 2) else models.random_fam_model(rng, n_dim=n_dim)
        return "doubles", doubles.random_model(rng, n_dim=n_dim)

    for kind in ("iform", "isorm"):
        for alpha in (1e-8, 0.5):
            for n_dim, n_points in ((2, 12), (3, 9)):
                for table in (False, True):
                    mode, m = mk(n_dim, table)
                    yield {"mode": mode, "kind": kind, "alpha": alpha, "n_points": n_points, "model": m.describe(),
                           "gen": "alpha-endpoint"}
        mode, m = mk(2, False)
        yield {"mode": mode, "kind": kind, "alpha": float(10 ** rng.uniform(-6, -1)), "alpha_form": "np.float64",
               "n_points": 16, "model": m.describe(), "gen": "alpha-form"}
        args = [float(rng.choice([1, 3, 6])), float(rng.choice([1, 20, 50, 100]))]
        mode, m = mk(int(rng.choice([2, 3])), bool(rng.integers(0, 2)))
        yield {"mode": mode, "kind": kind, "alpha": float(calculate_alpha(*args)), "alpha_form": "calculate_alpha",
               "alpha_args": args, "n_points": 10, "model": m.describe(), "gen": "alpha-form"}
        for n_dim in (2, 3, 3) + ((4, 4) if thorough else (4,)):
            for table in ((False, True) if (n_dim < 4 or thorough) else (False,)):
                mode, m = mk(n_dim, table)
                yield {"mode": mode, "kind": kind, "alpha": float(10 ** rng.uniform(-8, math.log10(0.5))), "n_points": None,
                       "model": m.describe(), "gen": "default-n_points"}


def desc_of(case):
    if case["mode"] == "doubles":
        d = doubles.model_from_desc(case["model"])
        return d, None
    f = models.fam_model_from_desc(case["model"])
    if case["model"].get("x"):
        f = FamModelX(f.dims)
    return f, f


def nonfinite_verdict(kind, desc, fam, alpha, n_points, impl):
    """non-finite coordinates are only acceptable where the independently recomputed chain is non-finite in the
    same row (a dependence function left the admissible range: outside the quantifier)"""
    C = impl["coords"]
    n_dim = desc.n_dim
    if C.shape != (n_points, n_dim):
        return [("n_points_rows", f"shape {C.shape} expected {(n_points, n_dim)}")]
    unit, _ = unit_sphere(n_dim, n_points)
    Phi = sts.norm.cdf(beta_of(kind, alpha, n_dim) * unit)
    ref = reference_chain(desc, fam, Phi)
    bad_rows = ~np.isfinite(C).all(axis=1)
    ref_bad = ~np.isfinite(ref).all(axis=1)
    only_impl = np.nonzero(bad_rows & ~ref_bad)[0]
    if len(only_impl):
        j = int(only_impl[0])
        return [("coordinates_finite", f"{len(only_impl)} of {n_points} contour points are not finite although the chain "
                 f"recomputed from the leaves is: point {j} coords={C[j].tolist()} expected {ref[j].tolist()}")]
    return []


def run_case(ck, case):
    desc, fam = desc_of(case)
    model = desc.build()
    kind, alpha, n_points = case["kind"], alpha_object(case), n_points_of(case)
    try:
        impl = run_impl(kind, model, alpha, case["n_points"])
    except Exception as e:  # noqa: BLE001
        return None, None, [("contour_computes", f"{type(e).__name__}: {e}")], 0, model
    if not np.all(np.isfinite(impl["coords"])):
        bad = nonfinite_verdict(kind, desc, fam, alpha, n_points, impl)
        return impl, None, (bad if bad else "nonfinite"), 0, model
    lines = model_lines(kind, desc, alpha, n_points, fam)
    ans = ck.driver.run(lines)
    mod = parse_model(ans[-1], n_points, desc.n_dim)
    bad, n_hyp = oracle(kind, model, alpha, n_points, impl)
    return impl, mod, bad, n_hyp, model


def process(ck, case):
    impl, mod, bad, n_hyp, model = run_case(ck, case)
    desc, fam = desc_of(case)
    if bad == "nonfinite":
        ck.count("nonfinite_coordinates_also_in_independent_chain")
        return
    ck.case(case, nontrivial=desc.n_dependent() >= 1, sample=case.get("gen") != "n_points-sweep")
    ck.count(f"mode={case['mode']}")
    ck.count(f"kind={case['kind']}")
    ck.count(f"n_dim={desc.n_dim}")
    if case.get("gen"):
        ck.count("gen=" + case["gen"])
    if case["n_points"] is None:
        ck.count(f"default_n_points_n_dim={desc.n_dim}")
    if case.get("alpha_form"):
        ck.count("alpha_form=" + case["alpha_form"])
    if case["alpha"] in (1e-8, 0.5):
        ck.count(f"alpha_endpoint={case['alpha']!r}")
    if impl is not None and impl["beta"] == 0.0:
        ck.count("beta_zero_sphere_degenerate")
    if case["model"].get("x"):
        for d in case["model"]["dims"]:
            ck.count("xfamily=" + d["family"])
            if d["family"] == "Weibull" and d["params"]["gamma"][0] == "dep":
                ck.count("x_weibull_gamma_dependent")
        if impl is not None and np.all(np.isfinite(impl["coords"])):
            for ci in set(c for c in desc.cond if c is not None):
                if (impl["coords"][:, ci] < 0).any():
                    ck.count("x_negative_conditioning_value")
                    break
    ck.hyp_checked += n_hyp
    for pred, detail in bad:
        ck.fail(sig(case["kind"], pred), case, detail)
    if mod is None:
        return
    d = compare(impl, mod, exact=(case["mode"] == "doubles"))
    if d == "inexact-ok":
        ck.count("table_mode_inexact_within_1e-11")
        d = None
    if d is not None and not bad:
        ck.diverge("iform-chain:" + case["mode"], case, d)


def main(ck):
    rng = np.random.default_rng(ck.seed)
    thorough = ck.tier == "thorough"
    ck.rule = ("random hierarchical models (n_dim 2-4, every conditional_on[i] < i pattern, rational doubles and "
               "shipped families with random dependence functions: Weibull (incl. dependent location), LogNormal, ExpWeibull, "
               "GenGamma, Normal, VonMises, LogNormalNormFit, ScipyDistribution subclasses gumbel_r / weibull_min; conditioning "
               "variables with negative values), alpha log-uniform in [1e-8, 0.5] plus both endpoints, numpy-scalar alpha and "
               "calculate_alpha output, n_points >= 3 and the public default (argument omitted) in 2-D/3-D/4-D, "
               "IFORM and ISORM; plus every admissible structure for n_dim 2..4 once; non-trivial = at least one "
               "dependent parameter in a conditional dimension; distinct by SHA1 of the case")
    ck.assumptions = ["norm.ppf/cdf, chi2.ppf, cos/sin and (table mode) family icdf enter the model as TABLE'd leaf values",
                      "NSphere unit points (n_dim >= 3) are an input of the model; their distinctness is observed, not proven"]
    ck.partial = {"distinct NSphere directions for n_dim >= 3": "computed on each explored size (incl. the public default n_points=180), not proven",
                  "inverse laws F(Q(p)) = p of scipy leaves": "hypothesis of rosenblatt_invRosenblatt; tested on every point used",
                  "Phi(Phi^-1(1-alpha)) = 1-alpha (scipy norm.cdf/ppf)": "hypothesis `hright` of iform_max_first_variable_is_marginal_quantile; observed: max first "
                  "variable compared with distributions[0].icdf(1-alpha) on every 2-D IFORM case",
                  "TransformedModel branch of IFORMContour._compute": "not reached by this check; C16 covers it",
                  "non-finite coordinates": "accepted (counted, no further verdict) only when the independently recomputed chain is non-finite in the same rows"}
    for case in structure_cases(rng):
        process(ck, case)
    for case in special_cases(rng, thorough):
        process(ck, case)
    for case in npoints_sweep_cases(rng, 720 if thorough else 400):
        process(ck, case)
    for case in gen_cases(rng, 1500 if thorough else 160, 360 if thorough else 60):
        process(ck, case)


def replay(ck, payload):
    case = payload["case"]
    impl, mod, bad, _, _ = run_case(ck, case)
    for pred, detail in (bad if isinstance(bad, list) else []):
        print("oracle:", pred, detail)
    if mod is not None and impl is not None:
        print("correspondence:", compare(impl, mod, exact=(case["mode"] == "doubles")))
    return not bad
