"""
C01 - IFORM/ISORM contours are the inverse-Rosenblatt image of the beta-sphere.

Correspondence
  (A) doubles: real GlobalHierarchicalModel + IFORMContour/ISORMContour over rational leaves;
      the Lean model (Model/Hier.lean, Model/Doubles.lean) reproduces beta, sphere points and
      coordinates bit for bit (leaves Phi, Phi^-1, chi2^-1, cos, sin are TABLE'd).
  (B) shipped families: the leaf icdf is an uninterpreted TABLE filled from *constructed*
      template instances at independently evaluated dependence values; the Lean chain decides
      which (dimension, probability, conditioning value) triples are looked up.
Oracle on the implementation's output: componentwise back-map through the model's own cdf and
norm.ppf equals the sphere point (=> radius beta, directions), beta vs independent isf, row count,
2-D angles, max of first variable.
"""
import math
import warnings

import numpy as np
import scipy.stats as sts

from core import f2b, b2f, fl
import doubles
import models

TWO_PI = 2 * np.pi


def contour_classes():
    from virocon import IFORMContour, ISORMContour

    return {"iform": IFORMContour, "isorm": ISORMContour}


def unit_sphere(n_dim, n_points):
    if n_dim == 2:
        phi = np.linspace(0, 2 * np.pi, num=n_points, endpoint=False)
        return np.stack((np.cos(phi), np.sin(phi)), axis=1), phi
    from virocon._nsphere import NSphere

    return NSphere(dim=n_dim, n_samples=n_points).unit_sphere_points, None


def beta_of(kind, alpha, n_dim):
    if kind == "iform":
        return float(sts.norm.ppf(1 - alpha))
    return float(np.sqrt(sts.chi2.ppf(1 - alpha, n_dim)))


def run_impl(kind, model, alpha, n_points):
    cls = contour_classes()[kind]
    with warnings.catch_warnings():
        warnings.simplefilter("ignore")
        c = cls(model, alpha, n_points=n_points)
    return {"beta": float(c.beta), "sphere": np.array(c.sphere_points, dtype=float),
            "coords": np.array(c.coordinates, dtype=float)}


def model_lines(kind, desc, alpha, n_points, fam=None):
    """TABLE lines + RUN line for one case. `fam` (FamModel) => table mode for the leaves."""
    n_dim = desc.n_dim
    oma = 1 - alpha
    beta = beta_of(kind, alpha, n_dim)
    unit, phi = unit_sphere(n_dim, n_points)
    sphere = beta * unit
    Phi = sts.norm.cdf(sphere)
    lines = ["CLEAR", f"TABLE {'beta' if kind == 'iform' else 'betaS'} {f2b(oma)} {f2b(beta)}"]
    for v, p in zip(sphere.ravel(), Phi.ravel()):
        lines.append(f"TABLE Phi {f2b(v)} {f2b(p)}")
    if n_dim == 2:
        for a, c, s in zip(phi, unit[:, 0], unit[:, 1]):
            lines.append(f"TABLE cos {f2b(a)} {f2b(c)}")
            lines.append(f"TABLE sin {f2b(a)} {f2b(s)}")
    if fam is not None:
        # reference chain with independent, constructed leaves (scalar calls)
        x = np.full((n_points, n_dim), np.nan)
        for i in range(n_dim):
            ci = fam.cond[i]
            for j in range(n_points):
                g = None if ci is None else float(x[j, ci])
                with np.errstate(all="ignore"):
                    v = float(fam.leaf(i, g).icdf(Phi[j, i]))
                x[j, i] = v
                lines.append(models.table_line("Q", i, Phi[j, i], g, v))
    toks = desc.tokens()
    if n_dim == 2:
        lines.append(" ".join(["RUN", "iform2", kind] + toks + [str(f2b(oma)), str(f2b(TWO_PI)), str(n_points)]))
    else:
        lines.append(" ".join(["RUN", "iformN", kind] + toks + [str(f2b(oma)), str(n_points)]
                              + [str(f2b(v)) for v in unit.ravel()]))
    return lines


def parse_model(ans, n_points, n_dim):
    t = ans.split()
    if t[0] != "OK":
        return {"err": " ".join(t[1:])}
    vals = [b2f(v) for v in t[2:]]
    beta = vals[0]
    k = n_points * n_dim
    sphere = np.array(vals[1:1 + k]).reshape(n_points, n_dim)
    coords = np.array(vals[1 + k:1 + 2 * k]).reshape(n_points, n_dim)
    return {"beta": beta, "sphere": sphere, "coords": coords}


def bits_equal(a, b):
    a = np.ascontiguousarray(a, dtype=np.float64)
    b = np.ascontiguousarray(b, dtype=np.float64)
    return a.shape == b.shape and np.array_equal(a.view(np.uint64), b.view(np.uint64))


def compare(impl, mod, exact, rtol=1e-11):
    if "err" in mod:
        return "model error: " + mod["err"]
    if f2b(impl["beta"]) != f2b(mod["beta"]):
        return f"beta impl={impl['beta']!r} model={mod['beta']!r}"
    if not bits_equal(impl["sphere"], mod["sphere"]):
        return "sphere points differ"
    if impl["coords"].shape != mod["coords"].shape:
        return f"shape impl={impl['coords'].shape} model={mod['coords'].shape}"
    if bits_equal(impl["coords"], mod["coords"]):
        return None
    if exact:
        d = np.argwhere(impl["coords"].view(np.uint64) != mod["coords"].view(np.uint64))[0]
        return f"coordinates differ at {tuple(d)}: impl={impl['coords'][tuple(d)]!r} model={mod['coords'][tuple(d)]!r}"
    err = np.abs(impl["coords"] - mod["coords"]) / np.maximum(1e-300, np.abs(mod["coords"]))
    if np.nanmax(err) > rtol or np.isnan(impl["coords"]).any():
        d = np.unravel_index(np.nanargmax(err), err.shape)
        return f"coordinates differ at {d}: impl={impl['coords'][d]!r} model={mod['coords'][d]!r}"
    return "inexact-ok"


def oracle(kind, model, alpha, n_points, impl):
    """property clauses on the implementation's own output"""
    bad = []
    n_dim = model.n_dim
    C, S, beta = impl["coords"], impl["sphere"], impl["beta"]
    if C.shape != (n_points, n_dim):
        bad.append(("n_points_rows", f"shape {C.shape} expected {(n_points, n_dim)}"))
        return bad, 0
    # beta against an independent route (survival functions)
    want = float(sts.norm.isf(alpha)) if kind == "iform" else float(np.sqrt(sts.chi2.isf(alpha, n_dim)))
    if not abs(beta - want) <= 1e-6 * max(1.0, abs(want)):
        bad.append(("beta_value", f"beta={beta!r} expected {want!r}"))
    # back-map through the model's own cdfs
    def backmap(X):
        V = np.empty_like(X)
        with np.errstate(all="ignore"), warnings.catch_warnings():
            warnings.simplefilter("ignore")
            for i in range(n_dim):
                ci = model.conditional_on[i]
                if ci is None:
                    p = model.distributions[i].cdf(X[:, i])
                else:
                    p = model.distributions[i].cdf(X[:, i], given=X[:, ci])
                V[:, i] = sts.norm.ppf(np.asarray(p, dtype=float))
        return V

    U = backmap(C)
    # conditioning of the back-map at these points: how far u moves when the coordinates move by a few ulps
    # (location parameters that grow with an extreme conditioning value cancel against x)
    eps = 8 * np.finfo(float).eps
    sens = np.zeros_like(U)
    for k in range(n_dim):
        for sgn in (1.0, -1.0):
            Cp = C.copy()
            Cp[:, k] = Cp[:, k] * (1 + sgn * eps)
            d = np.abs(backmap(Cp) - U)
            sens = np.maximum(sens, np.where(np.isfinite(d), d, np.inf))
    n_hyp = U.size
    r = np.sqrt((U * U).sum(axis=1))
    tol_comp = 1e-8 + 5e-14 / np.maximum(sts.norm.pdf(np.abs(S)), 1e-300) + 4 * sens
    tol_r = tol_comp.sum(axis=1)
    if not np.all(np.abs(r - beta) <= tol_r):
        j = int(np.argmax(np.abs(r - beta) - tol_r))
        bad.append(("radius_is_beta", f"point {j}: |u|={r[j]!r} beta={beta!r} coords={C[j].tolist()}"))
    if not np.all(np.abs(U - S) <= tol_comp):
        d = np.unravel_index(np.argmax(np.abs(U - S) - tol_comp), U.shape)
        bad.append(("rosenblatt_image_is_sphere_point", f"point {d[0]} dim {d[1]}: u={U[d]!r} sphere={S[d]!r}"))
    # sphere: radius, directions
    rs = np.sqrt((S * S).sum(axis=1))
    if not np.all(np.abs(rs - beta) <= 1e-9 * max(1.0, beta)):
        bad.append(("sphere_radius", f"max dev {np.max(np.abs(rs - beta))!r}"))
    if n_dim == 2:
        ang = np.mod(np.arctan2(S[:, 1], S[:, 0]), 2 * np.pi)
        want_ang = 2 * np.pi * np.arange(n_points) / n_points
        dev = np.abs(ang - want_ang)
        dev = np.minimum(dev, 2 * np.pi - dev)
        if not np.all(dev <= 1e-9):
            bad.append(("angles_equally_spaced", f"max dev {dev.max()!r} at {int(dev.argmax())}"))
        if kind == "iform":
            q = float(np.asarray(model.distributions[0].icdf(1 - alpha)))
            mx = float(C[:, 0].max())
            if not (mx == C[0, 0] and abs(mx - q) <= 1e-6 * max(1.0, abs(q))):
                bad.append(("max_first_variable_is_marginal_quantile", f"max x0={mx!r} first={C[0,0]!r} quantile={q!r}"))
    else:
        Un = S / max(beta, 1e-300)
        G = Un @ Un.T
        np.fill_diagonal(G, -1.0)
        if G.max() >= 1 - 1e-12:
            bad.append(("distinct_directions", f"two sphere points coincide (max cos {G.max()!r})"))
    return bad, n_hyp


def sig(kind, pred):
    return {"entry": {"iform": "IFORMContour", "isorm": "ISORMContour"}[kind], "predicate": pred}


def gen_cases(rng, n_cases, max_points, table_frac=0.35):
    for k in range(n_cases):
        kind = "iform" if rng.integers(0, 2) == 0 else "isorm"
        alpha = float(10 ** rng.uniform(-8, math.log10(0.5)))
        table = rng.uniform() < table_frac
        n_dim = int(rng.choice([2, 2, 3, 4]))
        n_points = int(rng.integers(3, max_points + 1)) if n_dim == 2 else int(rng.integers(3, min(max_points, 24) + 1))
        if table:
            m = models.random_fam_model(rng, n_dim=n_dim)
            yield {"mode": "table", "kind": kind, "alpha": alpha, "n_points": n_points, "model": m.describe()}
        else:
            m = doubles.random_model(rng, n_dim=n_dim)
            yield {"mode": "doubles", "kind": kind, "alpha": alpha, "n_points": n_points, "model": m.describe()}


def structure_cases(rng):
    """every admissible conditional_on structure for n_dim 2..4, doubles mode"""
    for n_dim in (2, 3, 4):
        for cond in doubles.all_structures(n_dim):
            m = doubles.random_model(rng, n_dim=n_dim, cond=cond)
            for kind in ("iform", "isorm"):
                yield {"mode": "doubles", "kind": kind, "alpha": float(10 ** rng.uniform(-6, -0.4)),
                       "n_points": 7 if n_dim > 2 else 12, "model": m.describe(), "gen": "all-structures"}


def npoints_sweep_cases(rng, hi):
    """every n_points from 3 to `hi` once on one 2-D model (the number of contour points must be exactly
    n_points for every value, not only for round ones)"""
    m = doubles.random_model(rng, n_dim=2, cond=[None, 0])
    for n_points in range(3, hi + 1):
        yield {"mode": "doubles", "kind": "iform" if n_points % 2 else "isorm", "alpha": 0.01, "n_points": n_points,
               "model": m.describe(), "gen": "n_points-sweep"}


def desc_of(case):
    if case["mode"] == "doubles":
        d = doubles.model_from_desc(case["model"])
        return d, None
    f = models.fam_model_from_desc(case["model"])
    return f, f


def run_case(ck, case):
    desc, fam = desc_of(case)
    model = desc.build()
    kind, alpha, n_points = case["kind"], case["alpha"], case["n_points"]
    try:
        impl = run_impl(kind, model, alpha, n_points)
    except Exception as e:  # noqa: BLE001
        return None, None, [("contour_computes", f"{type(e).__name__}: {e}")], 0, model
    if not np.all(np.isfinite(impl["coords"])):
        return impl, None, "nonfinite", 0, model
    lines = model_lines(kind, desc, alpha, n_points, fam)
    ans = ck.driver.run(lines)
    mod = parse_model(ans[-1], n_points, desc.n_dim)
    bad, n_hyp = oracle(kind, model, alpha, n_points, impl)
    return impl, mod, bad, n_hyp, model


def process(ck, case):
    impl, mod, bad, n_hyp, model = run_case(ck, case)
    desc, fam = desc_of(case)
    if bad == "nonfinite":
        ck.count("skipped_nonfinite_coordinates")
        return
    ck.case(case, nontrivial=desc.n_dependent() >= 1, sample=case.get("gen") != "n_points-sweep")
    ck.count(f"mode={case['mode']}")
    ck.count(f"kind={case['kind']}")
    ck.count(f"n_dim={desc.n_dim}")
    ck.hyp_checked += n_hyp
    for pred, detail in bad:
        ck.fail(sig(case["kind"], pred), case, detail)
    if mod is None:
        return
    d = compare(impl, mod, exact=(case["mode"] == "doubles"))
    if d == "inexact-ok":
        ck.count("table_mode_inexact_within_1e-11")
        d = None
    if d is not None and not bad:
        ck.diverge("iform-chain:" + case["mode"], case, d)


def main(ck):
    rng = np.random.default_rng(ck.seed)
    thorough = ck.tier == "thorough"
    ck.rule = ("random hierarchical models (n_dim 2-4, every conditional_on[i] < i pattern, rational doubles and "
               "shipped families with random dependence functions), alpha log-uniform in [1e-8, 0.5], n_points >= 3, "
               "IFORM and ISORM; plus every admissible structure for n_dim 2..4 once; non-trivial = at least one "
               "dependent parameter in a conditional dimension; distinct by SHA1 of the case")
    ck.assumptions = ["norm.ppf/cdf, chi2.ppf, cos/sin and (table mode) family icdf enter the model as TABLE'd leaf values",
                      "NSphere unit points (n_dim >= 3) are an input of the model; their distinctness is observed, not proven"]
    ck.partial = {"distinct NSphere directions for n_dim >= 3": "computed on each explored size, not proven",
                  "inverse laws F(Q(p)) = p of scipy leaves": "hypothesis of rosenblatt_invRosenblatt; tested on every point used"}
    for case in structure_cases(rng):
        process(ck, case)
    for case in npoints_sweep_cases(rng, 720 if thorough else 400):
        process(ck, case)
    for case in gen_cases(rng, 1500 if thorough else 160, 360 if thorough else 60):
        process(ck, case)


def replay(ck, payload):
    case = payload["case"]
    impl, mod, bad, _, _ = run_case(ck, case)
    for pred, detail in (bad if isinstance(bad, list) else []):
        print("oracle:", pred, detail)
    if mod is not None and impl is not None:
        print("correspondence:", compare(impl, mod, exact=(case["mode"] == "doubles")))
    return not bad
