"""
Core of the correspondence / verdict harness (see DESIGN.md 2.4-2.6).

One `Check` object per run of one property.  It
  * builds the Lean project (lake build, serialised by flock) and audits the
    property theorems (`#print axioms`, grep for sorry & co);
  * talks to the compiled model driver over the line protocol;
  * collects correspondence divergences, oracle failures, known findings;
  * writes replays, the evidence file, prints the verdict lines and exits.
"""
import fcntl
import hashlib
import json
import os
import re
import struct
import subprocess
import sys
import time
import warnings

warnings.filterwarnings("ignore", category=SyntaxWarning)

VERIF = os.path.dirname(os.path.dirname(os.path.abspath(__file__)))
LEAN = os.path.join(VERIF, "lean")
REPO = os.environ.get("VERIF_REPO", "/repo")
DRIVER = os.path.join(LEAN, ".lake", "build", "bin", "driver")
ALLOWED_AXIOMS = {"propext", "Classical.choice", "Quot.sound"}
FORBIDDEN = re.compile(
    r"\b(sorry|admit|native_decide|bv_decide|implemented_by|unsafe)\b|^\s*axiom\s|maxHeartbeats\s+0\b"
)

# make `import virocon` see the tree under test
if REPO not in sys.path:
    sys.path.insert(0, REPO)
os.environ.setdefault("MPLBACKEND", "Agg")
os.environ.setdefault("VIROCON_VERIF", "1")


def f2b(x):
    """float -> decimal UInt64 bit pattern"""
    return struct.unpack("<Q", struct.pack("<d", float(x)))[0]


def b2f(n):
    return struct.unpack("<d", struct.pack("<Q", int(n)))[0]


def fl(xs):
    """length-prefixed float list as protocol tokens"""
    xs = list(xs)
    return [str(len(xs))] + [str(f2b(x)) for x in xs]


def il(xs):
    xs = list(xs)
    return [str(len(xs))] + [str(int(x)) for x in xs]


class MachineryError(Exception):
    pass


def _strip_comments(src):
    src = re.sub(r"/-.*?-/", "", src, flags=re.S)
    src = re.sub(r"--.*", "", src)
    return src


def lean_build(prop=None):
    """lake build of the driver and of this property's theorem file only (no-op when up to date), so that a
    broken obligation of another property cannot turn this check red; returns (ok, log)."""
    os.makedirs(os.path.join(LEAN, ".lake"), exist_ok=True)
    subprocess.run([sys.executable, os.path.join(VERIF, "tools", "regen_index.py")], check=True)
    lock = open(os.path.join(LEAN, ".lake", "verif.lock"), "w")
    fcntl.flock(lock, fcntl.LOCK_EX)
    try:
        targets = ["driver"] + ([f"VirVerif.Properties.{prop}"] if prop else ["VirVerif"])
        p = subprocess.run(
            ["lake", "build"] + targets, cwd=LEAN, capture_output=True, text=True, timeout=3000
        )
        return p.returncode == 0, p.stdout + p.stderr
    finally:
        fcntl.flock(lock, fcntl.LOCK_UN)
        lock.close()


def leanchecker(prop):
    """thorough tier: Lean's independent re-checker replays the compiled declarations of the property's
    theorem file (and everything it imports from this project) through the kernel.
    Returns (status, text): status 'ok' | 'rejected' | 'not-completed' (killed / timed out: machinery, not a verdict)."""
    lock = open(os.path.join(LEAN, ".lake", "verif.lock"), "w")
    fcntl.flock(lock, fcntl.LOCK_EX)
    try:
        try:
            p = subprocess.run(["lake", "env", "leanchecker", f"VirVerif.Properties.{prop}"], cwd=LEAN,
                               capture_output=True, text=True, timeout=1800)
        except subprocess.TimeoutExpired:
            return "not-completed", "timeout"
        out = (p.stdout + p.stderr)[-800:]
        if p.returncode == 0:
            return "ok", out
        if p.returncode < 0 or "Could not find any oleans" in out:
            return "not-completed", f"exit {p.returncode}: {out}"
        return "rejected", out
    finally:
        fcntl.flock(lock, fcntl.LOCK_UN)
        lock.close()


def theorem_names(prop):
    """names of the theorems stated in Properties/<prop>.lean (comments stripped)"""
    path = os.path.join(LEAN, "VirVerif", "Properties", prop + ".lean")
    if not os.path.exists(path):
        return [], path
    src = _strip_comments(open(path).read())
    ns = re.findall(r"^namespace\s+(\S+)", src, flags=re.M)
    prefix = (ns[0] + ".") if ns else ""
    names = re.findall(r"^\s*theorem\s+([A-Za-z0-9_'.?!]+)", src, flags=re.M)
    return [prefix + n for n in names], path


def audit(prop, extra_modules=()):
    """
    Re-check, in this run, that every theorem of Properties/<prop>.lean is compiled, and
    print its axioms.  Returns dict(theorems=[(name, axioms)], problems=[...]).
    """
    problems = []
    names, path = theorem_names(prop)
    if not names:
        problems.append(f"no theorems found in {path}")
        return {"theorems": [], "problems": problems}
    # forbidden tokens anywhere in the Lean sources (comments stripped)
    for root, _, files in os.walk(os.path.join(LEAN, "VirVerif")):
        for fn in files:
            if fn.endswith(".lean"):
                src = _strip_comments(open(os.path.join(root, fn)).read())
                for i, line in enumerate(src.splitlines()):
                    if FORBIDDEN.search(line):
                        problems.append(f"forbidden token in {fn}: {line.strip()[:80]}")
    os.makedirs(os.path.join(LEAN, "Audit"), exist_ok=True)
    afile = os.path.join(LEAN, "Audit", prop + ".lean")
    mods = [f"VirVerif.Properties.{prop}"] + list(extra_modules)
    body = "".join(f"import {m}\n" for m in mods) + "".join(
        f"#print axioms {n}\n" for n in names
    )
    with open(afile, "w") as f:
        f.write(body)
    p = subprocess.run(
        ["lake", "env", "lean", afile], cwd=LEAN, capture_output=True, text=True, timeout=1200
    )
    out = p.stdout + p.stderr
    if p.returncode != 0:
        problems.append("audit failed: " + out[-800:])
    res = []
    # "'name' depends on axioms: [a, b]"  or "'name' does not depend on any axioms"
    flat = re.sub(r"\s+", " ", out)
    for n in names:
        m = re.search(r"'" + re.escape(n) + r"' depends on axioms: \[([^\]]*)\]", flat)
        if m:
            axs = [a.strip() for a in m.group(1).split(",") if a.strip()]
        elif re.search(r"'" + re.escape(n) + r"' does not depend on any axioms", flat):
            axs = []
        else:
            problems.append(f"theorem {n}: no axiom report")
            continue
        bad = [a for a in axs if a not in ALLOWED_AXIOMS]
        if bad:
            problems.append(f"theorem {n} uses non-standard axioms {bad}")
        res.append((n, axs))
    return {"theorems": res, "problems": problems}


def _big_stack():
    """the models are structurally recursive over lists (grids of 10^5 cells): give the driver a large stack"""
    import resource

    try:
        resource.setrlimit(resource.RLIMIT_STACK, (resource.RLIM_INFINITY, resource.RLIM_INFINITY))
    except (ValueError, OSError):
        try:
            soft, hard = resource.getrlimit(resource.RLIMIT_STACK)
            resource.setrlimit(resource.RLIMIT_STACK, (hard, hard))
        except (ValueError, OSError):
            pass


class Driver:
    """Batch interface to the compiled model driver."""

    def __init__(self):
        if not os.path.exists(DRIVER):
            raise MachineryError("driver not built: " + DRIVER)
        self.n_lines = 0
        # private copy of the binary: a concurrent `lake build` of another check replaces the file under
        # .lake/build/bin while this check is still running
        import atexit
        import shutil

        d = os.path.join(VERIF, "work", "drv")
        os.makedirs(d, exist_ok=True)
        # private copies left behind by worker processes (they end without running atexit handlers) or by killed runs
        for fn in os.listdir(d):
            m = re.match(r"driver-(\d+)-", fn)
            if m and not os.path.exists(f"/proc/{m.group(1)}"):
                try:
                    os.remove(os.path.join(d, fn))
                except OSError:
                    pass
        self.path = os.path.join(d, f"driver-{os.getpid()}-{id(self)}")
        shutil.copy2(DRIVER, self.path)
        atexit.register(lambda p=self.path: os.path.exists(p) and os.remove(p))

    def run(self, lines):
        """lines: list of token lists or strings (without the RUN prefix handled by caller)."""
        text = "\n".join(l if isinstance(l, str) else " ".join(l) for l in lines) + "\n"
        p = subprocess.run([self.path], input=text, capture_output=True, text=True, timeout=3000,
                           preexec_fn=_big_stack)
        if p.returncode != 0:
            raise MachineryError(f"driver crashed (exit {p.returncode}): " + p.stderr[-500:])
        self.n_lines += len(lines)
        return p.stdout.splitlines()

    def selftest(self):
        out = self.run(["SELFTEST"])
        toks = out[0].split()
        # a*a - fl(a*a) must be exactly 0 without FMA contraction; 0.1+0.2 bits
        if toks[0] != "SELFTEST" or int(toks[1]) != 0 or int(toks[2]) != f2b(0.1 + 0.2):
            raise MachineryError("driver float self-test failed: " + out[0])


def load_known_findings():
    """
    /verif/known_findings/*.txt, one entry per line:
      known: property=Cxx {"id":..., "signature":{...}, "text":...}   suppresses exactly that signature
      fixed: property=Cxx <commit> <what failed>                        documentation, suppresses nothing
    """
    out = []
    kdir = os.path.join(VERIF, "known_findings")
    for fn in sorted(os.listdir(kdir)) if os.path.isdir(kdir) else []:
        for line in open(os.path.join(kdir, fn)):
            line = line.strip()
            m = re.match(r"known:\s+property=(C\d+)\s+(\{.*\})$", line)
            if m:
                d = json.loads(m.group(2))
                d["property"] = m.group(1)
                d["status"] = "known"
                out.append(d)
    return out


class Check:
    def __init__(self, prop, tier, seed):
        self.prop = prop
        self.tier = tier
        self.seed = seed
        self.t0 = time.time()
        self.evaluations = 0
        self.keys = set()
        self.nontrivial = 0
        self.samples = []
        self.dist = {}
        self.divergences = []  # (op, case, detail)
        self.failures = []  # (signature, case, detail)
        self.known_seen = {}
        self.known = [k for k in load_known_findings() if k.get("property") == prop]
        self.obligations = 0
        self.discharged = 0
        self.trusted = []
        self.proof_problems = []
        self.extra = {}
        self.assumptions = []
        self.rule = ""
        self.driver = None
        self.hyp_checked = 0
        self.partial = None

    # ---- bookkeeping -------------------------------------------------
    def count(self, key, n=1):
        self.dist[key] = self.dist.get(key, 0) + n

    def case(self, case, nontrivial=True, sample=True):
        """register one explored case (dict, JSON-able)"""
        self.evaluations += 1
        h = hashlib.sha1(json.dumps(case, sort_keys=True, default=str).encode()).hexdigest()
        if h not in self.keys:
            self.keys.add(h)
            if nontrivial:
                self.nontrivial += 1
        if sample and len(self.samples) < 4:
            s = json.loads(json.dumps(case, default=str))
            self.samples.append(_truncate(s))

    def diverge(self, op, case, detail):
        self.divergences.append((op, case, detail))

    def fail(self, signature, case, detail):
        """property oracle failed on the real code for this case"""
        for k in self.known:
            if k.get("status") == "known" and k.get("signature") == signature:
                self.known_seen.setdefault(k["id"], (k, case, detail))
                return
        self.failures.append((signature, case, detail))

    # ---- Lean side ----------------------------------------------------
    def lean(self, extra_modules=()):
        ok, log = lean_build(self.prop)
        if not ok:
            self.proof_problems.append("lake build failed:\n" + log[-1500:])
            self.build_log = log
            return False
        a = audit(self.prop, extra_modules)
        self.obligations = max(len(theorem_names(self.prop)[0]), len(a["theorems"]))
        self.discharged = len(
            [1 for (_, axs) in a["theorems"] if all(x in ALLOWED_AXIOMS for x in axs)]
        )
        self.trusted = [f"{n}: axioms {axs}" for (n, axs) in a["theorems"]]
        self.proof_problems += a["problems"]
        if self.tier == "thorough" and not a["problems"]:
            st, txt = leanchecker(self.prop)
            self.trusted.append(f"leanchecker VirVerif.Properties.{self.prop}: {st}")
            if st == "rejected":
                self.proof_problems.append("leanchecker rejected the compiled theorems: " + txt)
                a["problems"].append("leanchecker")
        if not a["problems"]:
            self.driver = Driver()
            self.driver.selftest()
        return not a["problems"]

    # ---- output -------------------------------------------------------
    def _write_replay(self, kind, payload):
        os.makedirs(os.path.join(VERIF, "replays"), exist_ok=True)
        blob = json.dumps(payload, sort_keys=True, default=str)
        h = hashlib.sha1(blob.encode()).hexdigest()[:12]
        path = os.path.join(VERIF, "replays", f"{self.prop}-{kind}-{h}.json")
        with open(path, "w") as f:
            json.dump(payload, f, indent=1, default=str)
        return path

    def finish(self):
        lines = []
        n_viol = 0
        for kid, (k, case, detail) in self.known_seen.items():
            lines.append(f"KNOWN-FINDING: property={self.prop} {k['id']}: {k['text']}")
        # group failures by signature: one replay per signature
        by_sig = {}
        for sig, case, detail in self.failures:
            by_sig.setdefault(json.dumps(sig, sort_keys=True), (sig, case, detail))
        for _, (sig, case, detail) in by_sig.items():
            path = self._write_replay(
                "fail",
                {
                    "property": self.prop,
                    "kind": "property-violated-on-implementation",
                    "signature": sig,
                    "seed": self.seed,
                    "tier": self.tier,
                    "case": case,
                    "detail": detail,
                    "replay_cmd": f"./check {self.prop} --replay <this file>",
                },
            )
            lines.append(f"VIOLATION property={self.prop} replay={path}")
            n_viol += 1
        if not by_sig:
            # broken proof obligations / correspondence with no failing input found
            if self.proof_problems:
                path = self._write_replay(
                    "proof",
                    {
                        "property": self.prop,
                        "kind": "proof-obligation-no-longer-checks",
                        "problems": self.proof_problems,
                        "seed": self.seed,
                    },
                )
                lines.append(
                    f"VIOLATION property={self.prop} replay={path} no-failing-input-found"
                )
                n_viol += 1
            by_op = {}
            for op, case, detail in self.divergences:
                by_op.setdefault(op, (case, detail))
            for op, (case, detail) in by_op.items():
                path = self._write_replay(
                    "corr",
                    {
                        "property": self.prop,
                        "kind": "correspondence-broken",
                        "correspondence": op,
                        "seed": self.seed,
                        "tier": self.tier,
                        "case": case,
                        "detail": detail,
                        "note": "model and implementation disagree; the property oracle found no failing input",
                    },
                )
                lines.append(
                    f"VIOLATION property={self.prop} replay={path} no-failing-input-found"
                )
                n_viol += 1
        self.write_evidence(n_viol)
        for l in lines:
            print(l)
        sys.stdout.flush()
        return 1 if n_viol else 0

    def write_evidence(self, n_viol):
        cov = {
            "obligations": self.obligations,
            "discharged": self.discharged,
            "checker_cmd": f"cd {LEAN} && lake build && lake env lean Audit/{self.prop}.lean",
            "trusted_base": self.trusted
            + [
                "Lean 4.33.0 kernel; Mathlib v4.33.0 modules imported by the proof files",
                "correspondence harness /verif/harness (generators, comparison, oracles), model driver parsing",
            ],
            "evaluations": self.evaluations,
            "distinct_nontrivial": self.nontrivial,
            "rule": self.rule,
            "samples": self.samples,
            "traces_validated_against_impl": self.evaluations,
            "disagreements_checked": len(self.divergences),
            "input_distribution": self.dist,
            "hypotheses_checked": self.hyp_checked,
            "known_findings_seen": sorted(self.known_seen),
            "oracle_failures": len(self.failures),
            "driver_lines": self.driver.n_lines if self.driver else 0,
        }
        if self.partial:
            cov["partial"] = self.partial
        cov.update(self.extra)
        ev = {
            "property_id": self.prop,
            "tier": self.tier,
            "seed": self.seed,
            "level": "proof",
            "coverage": cov,
            "assumptions": self.assumptions,
            "wall_s": round(time.time() - self.t0, 2),
            "violations": n_viol,
        }
        # evidence/ only ever describes runs against /repo itself; self-test runs against scratch trees
        # (VERIF_REPO) are written to the git-ignored work/ directory
        edir = os.path.join(VERIF, "evidence") if os.path.realpath(REPO) == "/repo" else os.path.join(VERIF, "work", "evidence-scratch")
        os.makedirs(edir, exist_ok=True)
        with open(os.path.join(edir, self.prop + ".json"), "w") as f:
            json.dump(ev, f, indent=1, default=str)


def _truncate(o, n=40):
    if isinstance(o, list):
        if len(o) > n:
            return [_truncate(x, n) for x in o[:n]] + [f"... ({len(o)} items)"]
        return [_truncate(x, n) for x in o]
    if isinstance(o, dict):
        return {k: _truncate(v, n) for k, v in o.items()}
    if isinstance(o, str) and len(o) > 400:
        return o[:400] + "..."
    return o
